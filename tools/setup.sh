#!/bin/sh
# Build the framework offline from files on disk: the real s4 (hooks off) and the harness (hooks on).
set -e
cd "$(dirname "$0")/.."
export CARGO_NET_OFFLINE=true
python3 - <<'PY'
import sys, os
sys.path.insert(0, "py")
import common
common.build_real()
common.build_harness()
PY
