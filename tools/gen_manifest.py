#!/usr/bin/env python3
"""Regenerates MANIFEST.json from tools/manifest_src.json (checks table) — keeps it valid and uniform."""
import json, os
HERE = os.path.dirname(os.path.abspath(__file__)); ROOT = os.path.dirname(HERE)
src = json.load(open(os.path.join(HERE, "manifest_src.json")))
props = [json.loads(l)["id"] for l in open(os.path.join(ROOT, "properties.jsonl")) if l.strip()]
checks = []
for c in src["checks"]:
    pid = c["property_id"]
    checks.append({
        "property_id": pid,
        "quick_cmd": "./check %s --tier quick" % pid,
        "thorough_cmd": "./check %s --tier thorough" % pid,
        "evidence_file": "/verif/evidence/%s.json" % pid,
        "replay_cmd_template": "./check %s --replay {path}" % pid,
        "engine": c["engine"],
        "level_claimed": {"category": c["category"], "text": c["text"], "design_ref": c["design_ref"]},
        "level_note": c["level_note"],
        "technique": c["technique"],
    })
claimed = {c["property_id"] for c in checks}
na = [{"property_id": p, "reason": src["not_applicable"].get(p, "check not built yet in this round; see DESIGN.md section 4 for the planned enumeration")}
      for p in props if p not in claimed]
m = {"version": 1, "setup_cmd": src["setup_cmd"], "hooks": src["hooks"], "engines": src["engines"], "checks": checks,
     "notes": src["notes"], "not_applicable": na}
json.dump(m, open(os.path.join(ROOT, "MANIFEST.json"), "w"), indent=1)
print("MANIFEST.json: %d checks, %d not_applicable" % (len(checks), len(na)))
