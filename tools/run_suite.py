#!/usr/bin/env python3
"""run_suite.py <repo-dir> : run the repository's pinned test suite in <repo-dir> (offline) and
compare with BASELINE.json's stable_pass list. Exit 0 iff every stable_pass test passed."""
import json, os, subprocess, sys, xml.etree.ElementTree as ET
d = os.path.abspath(sys.argv[1] if len(sys.argv) > 1 else "/repo")
base = json.load(open("/root/.vp/BASELINE.json"))
stable = set(base["stable_pass"])
env = dict(os.environ, CARGO_NET_OFFLINE="true")
env.pop("RUSTFLAGS", None)
junit = os.path.join(env.get("CARGO_TARGET_DIR", os.path.join(d, "target")), "nextest", "pb", "junit.xml")
if os.path.exists(junit):
    os.remove(junit)
p = subprocess.run(["cargo", "nextest", "run", "--workspace", "--no-fail-fast", "--tool-config-file", "pb:/w/lib/nextest.toml",
                    "--profile", "pb", "--test-threads", "8", "--offline"], cwd=d, env=env, stdout=subprocess.PIPE, stderr=subprocess.STDOUT, text=True)
tail = p.stdout[-1500:]
if not os.path.exists(junit):
    print(tail); print("SUITE: no junit output (build failure?)"); sys.exit(2)
passed, failed = set(), set()
for tc in ET.parse(junit).getroot().iter("testcase"):
    tid = (tc.get("classname") or "") + "::" + (tc.get("name") or "")
    if tc.find("failure") is not None or tc.find("error") is not None or tc.find("flakyFailure") is not None or tc.find("rerunFailure") is not None:
        failed.add(tid)
    elif tc.find("skipped") is None:
        passed.add(tid)
passed -= failed
missing = sorted(stable - passed)
print("SUITE: passed=%d failed=%d stable_pass=%d regressions=%d" % (len(passed), len(failed), len(stable), len(missing)))
for m in missing[:40]:
    print("  REGRESSION:", m)
sys.exit(0 if not missing else 1)
