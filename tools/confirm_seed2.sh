#!/bin/bash
# tools/confirm_seed2.sh <worktree> <ID> <variant> [patchfile] : independently confirm a round-N seeded change kept in
# $KEEP/<ID>/<variant>/ (default /tmp/wt2/keep, ROUND=2; round 3: KEEP=/tmp/wt3/keep ROUND=3) using the scratch worktree <worktree> (a detached worktree of /repo at HEAD):
# patch applies, release binary builds, demo FAILs with / PASSes without, pinned suite has regressions=0.
# Writes /verif/seeded/<ID>-2<variant>/{patch.diff,demo.*,notes.md,confirm.log,meta.json}; leaves the worktree pristine.
set -u
wt="$1"; id="$2"; var="$3"; KEEP="${KEEP:-/tmp/wt2/keep}"; ROUND="${ROUND:-2}"; src=$KEEP/$id/$var; pf="${4:-$src/patch.diff}"
dst=/verif/seeded/$id-$ROUND$var
mkdir -p "$dst"; log="$dst/confirm.log"; : > "$log"
cd "$wt" || exit 2
git checkout -q -- . ; git clean -fdq src 2>/dev/null
BUILD="cargo build --release --offline --bin s4 --config profile.release.lto=false --config profile.release.codegen-units=16 --config profile.release.strip=false"
demo=$(ls $src/demo.* | head -1)
run_demo() { case "$demo" in *.py) python3 "$demo" "$1";; *) bash "$demo" "$1";; esac; }
if [ ! -x "$wt/s4.pristine" ]; then
  echo "== pristine build" >> "$log"; CARGO_NET_OFFLINE=true $BUILD >> "$log" 2>&1 || { echo "pristine build failed" >> "$log"; exit 2; }
  cp target/release/s4 "$wt/s4.pristine"
fi
echo "== demo on pristine" >> "$log"; run_demo "$wt/s4.pristine" >> "$log" 2>&1; rc_p=$?
git apply "$pf" >> "$log" 2>&1 || { echo "patch does not apply" >> "$log"; echo "confirm $id-$ROUND$var: PATCH DOES NOT APPLY"; exit 2; }
echo "== patched build" >> "$log"; CARGO_NET_OFFLINE=true $BUILD >> "$log" 2>&1; rc_b=$?
cp target/release/s4 "$wt/s4.patched"
rc_m=0
for k in 1 2 3; do
  echo "== demo on patched (attempt $k)" >> "$log"; run_demo "$wt/s4.patched" >> "$log" 2>&1; rc_m=$?
  [ "$rc_m" != "0" ] && break
done
echo "== suite on patched" >> "$log"; python3 /verif/tools/run_suite.py "$wt" >> "$log" 2>&1; rc_s=$?
suite_line=$(grep -a "^SUITE:" "$log" | tail -1)
case "$suite_line" in *"regressions=0"*) ;; *) echo "== suite on patched (second run)" >> "$log"; python3 /verif/tools/run_suite.py "$wt" >> "$log" 2>&1; rc_s=$?; suite_line=$(grep -a "^SUITE:" "$log" | tail -1);; esac
git checkout -q -- . ; git clean -fdq src 2>/dev/null
cp "$pf" "$dst/patch.diff"; cp "$demo" "$dst/"; cp "$src/notes.md" "$dst/notes.md" 2>/dev/null
python3 - "$id" "$ROUND$var" "$rc_p" "$rc_b" "$rc_m" "$rc_s" "$suite_line" "$(basename $demo)" "$ROUND" > "$dst/meta.json" <<'PY'
import json,sys
id,var,rc_p,rc_b,rc_m,rc_s,suite,demo,rnd=sys.argv[1:10]
ok = rc_p=="0" and rc_b=="0" and rc_m!="0" and rc_s=="0" and "regressions=0" in suite
print(json.dumps({"property":id,"variant":var,"round":int(rnd),"demo":demo,
 "confirmed": ok,
 "what_i_ran":{"demo_on_pristine_exit":int(rc_p),"patched_build_exit":int(rc_b),"demo_on_patched_exit":int(rc_m),"suite_exit":int(rc_s),"suite_line":suite},
 "needs_to_manifest":"see notes.md","detected_by":[]},indent=1))
PY
echo "confirm $id-$ROUND$var: pristine_demo=$rc_p build=$rc_b patched_demo=$rc_m suite=$rc_s [$suite_line]"
