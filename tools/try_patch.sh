#!/bin/bash
# tools/try_patch.sh <patch.diff> <ID> [ID...] : apply a seeded change to /repo, run the quick checks, always undo.
set -u
patch="$1"; shift
cd /verif
if [ -n "$(git -C /repo status --porcelain --untracked-files=no)" ]; then echo "repo not clean"; exit 2; fi
git -C /repo apply "$patch" 2>/dev/null || (cd /repo && patch -p1 -F3 -s --no-backup-if-mismatch < "$patch") || { echo "patch does not apply"; git -C /repo checkout -- .; exit 2; }
restore() {
  git -C /repo checkout -- .
  # rebuild the pristine binaries so that nothing stale from the seeded change is left in .target
  (cd /verif && python3 -c "import sys; sys.path.insert(0,'py'); import common; common.build_real(); common.build_harness()" > /dev/null 2>&1)
  git -C /verif checkout -- evidence 2>/dev/null   # evidence written while the seeded change was applied is not evidence about the tree
  echo "[try_patch] /repo restored, pristine binaries rebuilt, evidence files restored"
}
trap restore EXIT
for id in "$@"; do
  echo "=== $id with $(basename $(dirname $patch))/$(basename $patch)"
  VERIF_TIER=${TIER:-quick} timeout 1800 ./check $id --tier ${TIER:-quick} > /tmp/try_$id.log 2>&1; rc=$?
  grep -E "^VIOLATION|^KNOWN-FINDING|MACHINERY|tier=" /tmp/try_$id.log | cut -c1-260 | head -12
  echo "=== $id exit=$rc"
done
