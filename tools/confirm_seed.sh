#!/bin/bash
# tools/confirm_seed.sh <ID> <variant> : independently confirm a seeded change delivered in /tmp/wt/out/<ID>/<variant>/
# in the scratch worktree /tmp/wt/<ID>: applies, suite still passes, demo FAILs with / PASSes without. Writes
# /verif/seeded/<ID>-<variant>/{patch.diff,demo.*,notes.md,confirm.log,meta.json}. Leaves the worktree pristine.
set -u
id="$1"; var="$2"
wt=/tmp/wt/$id; src=/tmp/wt/out/$id/$var; dst=/verif/seeded/$id-$var
mkdir -p "$dst"; log="$dst/confirm.log"; : > "$log"
cd "$wt" || exit 2
git checkout -q -- . ; git clean -fdq src 2>/dev/null
BUILD="cargo build --release --offline --bin s4 --config profile.release.lto=false --config profile.release.codegen-units=16 --config profile.release.strip=false"
demo=$(ls $src/demo.* | head -1)
run_demo() { case "$demo" in *.py) python3 "$demo" "$1";; *) bash "$demo" "$1";; esac; }
echo "== pristine build" >> "$log"; CARGO_NET_OFFLINE=true $BUILD >> "$log" 2>&1 || { echo "pristine build failed" >> "$log"; exit 2; }
cp target/release/s4 /tmp/wt/out/$id/s4.confirm.pristine
echo "== demo on pristine" >> "$log"; run_demo /tmp/wt/out/$id/s4.confirm.pristine >> "$log" 2>&1; rc_p=$?
git apply "$src/patch.diff" >> "$log" 2>&1 || { echo "patch does not apply" >> "$log"; exit 2; }
echo "== patched build" >> "$log"; CARGO_NET_OFFLINE=true $BUILD >> "$log" 2>&1; rc_b=$?
cp target/release/s4 /tmp/wt/out/$id/s4.confirm.$var
echo "== demo on patched" >> "$log"; run_demo /tmp/wt/out/$id/s4.confirm.$var >> "$log" 2>&1; rc_m=$?
echo "== suite on patched" >> "$log"; python3 /tmp/wt/tools/run_suite.py "$wt" >> "$log" 2>&1; rc_s=$?
suite_line=$(grep "^SUITE:" "$log" | tail -1)
git checkout -q -- .
cp "$src/patch.diff" "$dst/patch.diff"; cp "$demo" "$dst/"; cp "$src/notes.md" "$dst/notes.md" 2>/dev/null
python3 - "$id" "$var" "$rc_p" "$rc_b" "$rc_m" "$rc_s" "$suite_line" "$(basename $demo)" > "$dst/meta.json" <<'PY'
import json,sys
id,var,rc_p,rc_b,rc_m,rc_s,suite,demo=sys.argv[1:9]
ok = rc_p=="0" and rc_b=="0" and rc_m!="0" and rc_s=="0"
print(json.dumps({"property":id,"variant":var,"demo":demo,
 "confirmed": ok,
 "what_i_ran":{"demo_on_pristine_exit":int(rc_p),"patched_build_exit":int(rc_b),"demo_on_patched_exit":int(rc_m),"suite_exit":int(rc_s),"suite_line":suite},
 "needs_to_manifest":"see notes.md","detected_by":[]},indent=1))
PY
echo "confirm $id-$var: pristine_demo=$rc_p build=$rc_b patched_demo=$rc_m suite=$rc_s"
