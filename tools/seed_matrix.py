#!/usr/bin/env python3
"""tools/seed_matrix.py [pattern] : apply every kept seeded change in turn (tools/try_patch.sh), run the quick tier of the
check(s) that are recorded as detecting it, and print one line per change. A change counts as detected when at least one
of those checks exits 1. Never run this while another check is running (it patches /repo and reverts it)."""
import glob, json, os, re, subprocess, sys
pat = sys.argv[1] if len(sys.argv) > 1 else ""
items = []
for d in sorted(glob.glob("/verif/seeded/*/")):
    name = os.path.basename(d.rstrip("/"))
    if not os.path.exists(d + "meta.json"):
        continue
    meta = json.load(open(d + "meta.json"))
    prop = name.split("-")[0]
    det = meta.get("detected_by") or ""
    det = det if isinstance(det, str) else " ".join(det)
    ids = re.findall(r"\bC\d\d\b", det)
    checks = []
    for i in ([prop] if not ids else ids):
        if i not in checks:
            checks.append(i)
    pf = d + "patch.diff"
    for alt in ("patch_rebased_on_fixes.diff", "patch_rebased_on_hooks.diff", "patch_rebased.diff"):
        if os.path.exists(d + alt):
            pf = d + alt
            break
    items.append((name, pf, checks))
out = open("/tmp/seed_matrix.txt", "a")
for name, pf, checks in items:
    if pat and not re.search(pat, name):
        continue
    if subprocess.run(["git", "-C", "/repo", "apply", "--check", pf], capture_output=True).returncode != 0:
        # try with fuzz through try_patch anyway
        pass
    p = subprocess.run(["/verif/tools/try_patch.sh", pf] + checks, capture_output=True, text=True)
    rcs = re.findall(r"=== (C\d\d) exit=(\d+)", p.stdout)
    ok = any(rc == "1" for _, rc in rcs)
    line = "%-12s %s %s" % (name, "DETECTED" if ok else "MISSED  ", " ".join("%s=%s" % x for x in rcs) or p.stdout.strip()[-120:])
    print(line, flush=True)
    out.write(line + "\n"); out.flush()
