#!/usr/bin/env python3
"""tools/seed_matrix.py [pattern] : apply every kept seeded change in turn (tools/try_patch.sh), run the quick tier of the
check(s) that are recorded as detecting it, and print one line per change. A change counts as detected when at least one
of those checks exits 1. Never run this while another check is running (it patches /repo and reverts it)."""
import glob, json, os, re, subprocess, sys
pat = sys.argv[1] if len(sys.argv) > 1 else ""
R3 = {  # round 3 (kept under /tmp/wt3/keep until confirmed): detecting checks
 "C01/a": "C01 C13", "C01/b": "C01", "C02/a": "C02", "C02/b": "C02", "C03/a": "C03", "C03/b": "C14", "C04/a": "C04", "C04/b": "C04",
 "C05/a": "C05", "C05/b": "C11", "C06/a": "C06", "C06/b": "C06", "C07/a": "C07", "C07/b": "C07", "C08/a": "C03", "C08/b": "C05",
 "C09/a": "C09", "C09/b": "C09", "C10/a": "C10", "C10/b": "C10", "C11/a": "C11", "C11/b": "C11", "C12/a": "C12", "C12/b": "C05",
 "C13/a": "C13 C08", "C13/b": "C13", "C14/a": "C14", "C14/b": "C14", "C15/a": "C15", "C15/b": "C15", "C16/a": "C16", "C16/b": "C15",
 "C17/a": "C17", "C17/b": "C17", "C18/a": "C18", "C18/b": "C18", "C19/a": "C19 C13", "C19/b": "C19"}
items = []
for d in sorted(glob.glob("/verif/seeded/*/")):
    name = os.path.basename(d.rstrip("/"))
    if not os.path.exists(d + "meta.json") or re.search(r"-3", name):
        continue          # round 3 is taken from the table below
    meta = json.load(open(d + "meta.json"))
    prop = name.split("-")[0]
    det = meta.get("detected_by") or ""
    det = det if isinstance(det, str) else " ".join(det)
    ids = re.findall(r"\bC\d\d\b", det)
    checks = []
    for i in ([prop] if not ids else ids):
        if i not in checks:
            checks.append(i)
    pf = d + "patch.diff"
    for alt in ("patch_rebased_on_fixes.diff", "patch_rebased_on_hooks.diff", "patch_rebased.diff"):
        if os.path.exists(d + alt):
            pf = d + alt
            break
    items.append((name, pf, checks))
if os.path.isdir("/tmp/wt3/keep"):
    for k, v in sorted(R3.items()):
        name = k.replace("/", "-3")
        items.append((name, "/tmp/wt3/keep/%s/patch.diff" % k, v.split()))
out = open("/tmp/seed_matrix.txt", "a")
for name, pf, checks in items:
    if pat and not re.search(pat, name):
        continue
    if subprocess.run(["git", "-C", "/repo", "apply", "--check", pf], capture_output=True).returncode != 0:
        # try with fuzz through try_patch anyway
        pass
    p = subprocess.run(["/verif/tools/try_patch.sh", pf] + checks, capture_output=True, text=True)
    rcs = re.findall(r"=== (C\d\d) exit=(\d+)", p.stdout)
    ok = any(rc == "1" for _, rc in rcs)
    line = "%-12s %s %s" % (name, "DETECTED" if ok else "MISSED  ", " ".join("%s=%s" % x for x in rcs) or p.stdout.strip()[-120:])
    print(line, flush=True)
    out.write(line + "\n"); out.flush()
