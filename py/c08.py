"""C08 — accounting-record files: every record once, in time order. Engine: E-CLI over exhaustively enumerated record files."""
import itertools
import os
import re
import shutil

import common
import gen
import layouts

PROP = "C08"
E = gen.EPOCH_2000
DTFMT = "%Y%m%dT%H%M%S%.6f"
LINE_RE = re.compile(rb"^(\d{8}T\d{6}\.\d{6}):(.*)$")


def time_domain(lay):
    """three instants; layouts with microseconds get a sub-second neighbour"""
    if layouts.usec_capable(lay):
        return [(E + 10, 0), (E + 10, 500000), (E + 11, 5)]
    return [(E + 10, 0), (E + 11, 0), (E + 12, 0)]


def fmt_dt(sec, usec):
    y, m, d, h, mi, s = gen.civil(sec)
    return b"%04d%02d%02dT%02d%02d%02d.%06d" % (y, m, d, h, mi, s, usec)


def build_cases(tier):
    nmax = 3 if tier == "quick" else 4
    cases = []
    for l in layouts.LAYOUTS:
        lay = layouts.layout(l[0])
        dom = time_domain(lay)
        for n in range(1, nmax + 1):
            for assign in itertools.product(range(len(dom)), repeat=n):
                # null-record patterns: none; before the first; between; after the last (all-zero records)
                pats = [()] if n > 2 and tier == "quick" else [(), (0,), (n,)] + ([(1,)] if n >= 2 else [])
                for nulls in pats:
                    cases.append((l[0], assign, nulls, "zero", False))
                if n <= 2 or tier == "thorough":
                    # all-0xFF records (unparsable, must be skipped like null records) in the same positions
                    for nulls in ([(0,), (n,)] + ([(1,)] if n >= 2 else [])):
                        cases.append((l[0], assign, nulls, "ff", False))
                    # records whose text is as long as the layout allows
                    if lay["kind"] not in ("acct", "acct_v3", "acct_bsd"):
                        cases.append((l[0], assign, (), "zero", True))
    return cases


def make_file(lay, assign, nulls, nullkind="zero", fat=False):
    dom = time_domain(lay)
    nullrec = bytes(lay["size"]) if nullkind == "zero" else b"\xff" * lay["size"]
    recs = []
    meta = []   # (token, sec, usec, file position)
    pos = 0
    for i, a in enumerate(assign):
        if i in nulls:
            recs.append(nullrec)
            pos += 1
        tok = b"K%dq%d" % (i, a)
        sec, usec = dom[a]
        recs.append(layouts.record(lay, sec, usec, tok, i, fat=fat))
        meta.append((tok, sec, usec, pos))
        pos += 1
    if len(assign) in nulls:
        recs.append(nullrec)
    return b"".join(recs), meta


def judge(lay, meta, r, variant=None):
    """returns list of (features, what)"""
    out = []
    if r.timed_out or r.rc not in (0, 1):
        return [({"symptom": "crash"}, "rc=%s timed_out=%s stderr=%r" % (r.rc, r.timed_out, r.err[-200:]))]
    exp = sorted(meta, key=lambda m: (m[1], m[2]))     # stable: file order among equal times
    times = [(m[1], m[2]) for m in meta]
    has_ties = len(set(times)) < len(times)
    raw = r.out
    stray_nul = raw.count(b"\n\x00")
    body = raw.replace(b"\n\x00", b"\n")
    lines = body.split(b"\n")
    if lines and lines[-1] == b"":
        lines.pop()
    base = {"layout": lay["id"], "has_ties": has_ties}
    if variant:
        base["null_kind"], base["fat_records"] = variant[1], variant[2]
    if stray_nul:
        out.append((dict(base, symptom="stray-nul-after-record", every_record=stray_nul == len(lines)),
                    "each record line is followed by a NUL byte that belongs to no record (%d NULs for %d lines)" % (stray_nul, len(lines))))
    if b"\x00" in body:
        out.append((dict(base, symptom="nul-inside-line"), "NUL byte inside a printed line"))
    got = []
    for ln in lines:
        m = LINE_RE.match(ln)
        if not m:
            out.append((dict(base, symptom="unparseable-line"), "printed line without the prepended datetime: %r" % ln[:80]))
            return out
        toks = [t for (t, _, _, _) in meta if t in m.group(2)]
        got.append((m.group(1), toks, m.group(2)))
    if len(got) != len(exp):
        kind = "records-missing" if len(got) < len(exp) else "records-repeated"
        feats = dict(base, symptom=kind, printed=len(got), expected=len(exp))
        # discriminate the known overwrite: exactly the records that share a time value with a later record vanish
        distinct_times = len(set(times))
        feats["printed_equals_distinct_time_values"] = len(got) == distinct_times
        out.append((feats, "%d records in the file, %d printed" % (len(exp), len(got))))
        return out
    for (dt, toks, text), (tok, sec, usec, _pos) in zip(got, exp):
        if toks != [tok]:
            sym = "wrong-order" if sorted(t for _, ts, _ in got for t in ts) == sorted(t for t, _, _, _ in meta) else "wrong-record-text"
            out.append((dict(base, symptom=sym), "expected record %r at this position, line carries tokens %r" % (tok, toks)))
            return out
        if dt != fmt_dt(sec, usec):
            out.append((dict(base, symptom="wrong-instant"), "record %r: printed instant %r, stored time value %r" % (tok, dt, fmt_dt(sec, usec))))
            return out
        # the time value shown in the record text must be the stored one
        if usec and layouts.usec_capable(lay):
            ok = (b"%d.%06d" % (sec, usec)) in text
            if not ok:
                out.append((dict(base, symptom="time-field-text", unpadded_usec=(b"%d.%d" % (sec, usec)) in text),
                            "record %r: the time value in the record text is not %d.%06d: %r" % (tok, sec, usec, text[-60:])))
    return out


def run(tier, seed, build=True):
    if build:
        common.build_real()
    res = common.Result(PROP, tier, "exploration", seed)
    work = common.scratch_dir(PROP)
    try:
        cases = build_cases(tier)
        bszs_for = lambda lay: sorted({64, max(64, lay["size"]), max(64, lay["size"] + 1), 65536}) if tier == "thorough" else sorted({max(64, lay["size"] + 1), 65536})
        conts = ["plain"] + (["gz", "tar"] if tier == "thorough" else ["gz"])
        common.log("[C08] %d record files over %d layouts" % (len(cases), len(layouts.LAYOUTS)))
        items = []
        for ci, (lid, assign, nulls, nullkind, fat) in enumerate(cases):
            lay = layouts.layout(lid)
            data, meta = make_file(lay, assign, nulls, nullkind, fat)
            d = os.path.join(work, "c%d" % ci)
            os.makedirs(d)
            common.write_file(os.path.join(d, lay["file"]), data)
            for cont in conts:
                if cont != "plain" and (len(assign) < 2 or nulls):
                    continue
                fname = lay["file"]
                if cont == "gz":
                    fname = lay["file"] + ".gz"
                    common.write_file(os.path.join(d, fname), gen.gz(data))
                elif cont == "tar":
                    fname = "a.tar"
                    common.write_file(os.path.join(d, fname), gen.tar([(lay["file"], data)]))
                for bsz in (bszs_for(lay) if cont == "plain" else [65536]):
                    items.append((ci, lid, assign, (nulls, nullkind, fat), cont, fname, bsz, d, meta))

        def one(it):
            ci, lid, assign, nulls, cont, fname, bsz, d, meta = it
            args = ["--color", "never", "-u", "-d", DTFMT, "-t", "+00:00", "--blocksz", str(bsz), fname]
            return it, args, common.run_s4(args, cwd=d)

        for it, args, r in common.pmap(one, items):
            ci, lid, assign, nulls, cont, fname, bsz, d, meta = it
            lay = layouts.layout(lid)
            res.count()
            res.distinct((lid, assign, nulls))
            for feats, what in judge(lay, meta, r, nulls):
                feats = dict(feats, container=cont)
                res.violation(feats, "%s records=%s nulls=%s %s blocksz %d: %s" % (lid, assign, nulls, cont, bsz, what),
                              {"engine": "E-CLI", "args": args, "files": {fname: common.b64(open(os.path.join(d, fname), "rb").read())},
                               "layout": lid, "records": [(t.decode(), s_, u, p) for t, s_, u, p in meta]})
        res.sample({"layout": "netbsd_x8664_utmpx", "time_assignment": [2, 0, 0], "null_records_before_index": [1], "argv": ["--color", "never", "-u", "-d", DTFMT, "--blocksz", "521", "wtmpx"]})
        res.coverage["rule"] = ("16 record layouts (offset tables parsed from the platform documents in /repo/logs) x n<=3/4 records x EVERY assignment of time values from a 3-point domain "
                                "(all duplicate/disorder patterns) x all-zero records before/between/after x block sizes x {plain, gz, tar}; oracle: printed sequence = stable sort by time of the "
                                "non-null records, each line carrying exactly its record's unique tokens, printed instant = stored time value, no bytes outside record lines. "
                                "distinct_nontrivial = distinct (layout, time assignment, null pattern)")
    finally:
        shutil.rmtree(work, ignore_errors=True)
    res.assumptions += ["records are made plausible (valid ut_type, printable NUL-padded strings) because the reader scores candidates; layout tables come from logs/*/utmp-offsets_*.out.txt"]
    return res.finish()


def replay(path, build=True):
    import base64
    import json
    if build:
        common.build_real()
    j = json.load(open(path))
    r = j["replay"]
    work = common.scratch_dir(PROP + "r")
    try:
        for fn, b in r["files"].items():
            common.write_file(os.path.join(work, fn), base64.b64decode(b))
        x = common.run_s4(r["args"], cwd=work)
        lay = layouts.layout(r["layout"])
        meta = [(t.encode(), s_, u, p) for t, s_, u, p in r["records"]]
        v = judge(lay, meta, x)
        common.log("stdout: %r" % x.out[:600])
        for feats, what in v:
            common.log("  %s %s" % (feats, what))
        want = j["features"].get("symptom")
        if any(f.get("symptom") == want for f, _ in v):
            common.log("VIOLATION property=%s replay=%s" % (PROP, path))
            return common.EXIT_VIOLATION
        return common.EXIT_OK
    finally:
        shutil.rmtree(work, ignore_errors=True)
