"""C08 — accounting-record files: every record once, in time order. Engine: E-CLI over exhaustively enumerated record files."""
import itertools
import os
import re
import shutil

import common
import gen
import layouts

PROP = "C08"
E = gen.EPOCH_2000
DTFMT = "%Y%m%dT%H%M%S%.6f"
LINE_RE = re.compile(rb"^(\d{8}T\d{6}\.\d{6}):(.*)$")


def time_domain(lay):
    """three instants; layouts with microseconds get a sub-second neighbour"""
    if layouts.usec_capable(lay):
        return [(E + 10, 0), (E + 10, 500000), (E + 11, 5)]
    return [(E + 10, 0), (E + 11, 0), (E + 12, 0)]


def fmt_dt(sec, usec):
    y, m, d, h, mi, s = gen.civil(sec)
    return b"%04d%02d%02dT%02d%02d%02d.%06d" % (y, m, d, h, mi, s, usec)


def build_cases(tier):
    nmax = 3 if tier == "quick" else 4
    cases = []
    for l in layouts.LAYOUTS:
        lay = layouts.layout(l[0])
        dom = time_domain(lay)
        for n in range(1, nmax + 1):
            for assign in itertools.product(range(len(dom)), repeat=n):
                # null-record patterns: none; before the first; between; after the last (all-zero records)
                pats = [()] if n > 2 and tier == "quick" else [(), (0,), (n,)] + ([(1,)] if n >= 2 else [])
                for nulls in pats:
                    cases.append((l[0], assign, nulls, "zero", False))
                if n <= 2 or tier == "thorough":
                    # all-0xFF records (unparsable, must be skipped like null records) in the same positions
                    for nulls in ([(0,), (n,)] + ([(1,)] if n >= 2 else [])):
                        cases.append((l[0], assign, nulls, "ff", False))
                    # records whose text is as long as the layout allows
                    if lay["kind"] not in ("acct", "acct_v3", "acct_bsd"):
                        cases.append((l[0], assign, (), "zero", True))
    return cases


def make_file(lay, assign, nulls, nullkind="zero", fat=False):
    dom = time_domain(lay)
    nullrec = bytes(lay["size"]) if nullkind == "zero" else b"\xff" * lay["size"]
    recs = []
    meta = []   # (token, sec, usec, file position)
    pos = 0
    for i, a in enumerate(assign):
        if i in nulls:
            recs.append(nullrec)
            pos += 1
        tok = b"K%dq%d" % (i, a)
        sec, usec = dom[a]
        recs.append(layouts.record(lay, sec, usec, tok, i, fat=fat))
        meta.append((tok, sec, usec, pos))
        pos += 1
    if len(assign) in nulls:
        recs.append(nullrec)
    return b"".join(recs), meta


def judge(lay, meta, r, variant=None):
    """returns list of (features, what)"""
    out = []
    if r.timed_out or r.rc not in (0, 1):
        return [({"symptom": "crash"}, "rc=%s timed_out=%s stderr=%r" % (r.rc, r.timed_out, r.err[-200:]))]
    exp = sorted(meta, key=lambda m: (m[1], m[2]))     # stable: file order among equal times
    times = [(m[1], m[2]) for m in meta]
    has_ties = len(set(times)) < len(times)
    raw = r.out
    stray_nul = raw.count(b"\n\x00")
    body = raw.replace(b"\n\x00", b"\n")
    lines = body.split(b"\n")
    if lines and lines[-1] == b"":
        lines.pop()
    base = {"layout": lay["id"], "has_ties": has_ties}
    if variant:
        base["null_kind"], base["fat_records"] = variant[1], variant[2]
    if stray_nul:
        out.append((dict(base, symptom="stray-nul-after-record", every_record=stray_nul == len(lines)),
                    "each record line is followed by a NUL byte that belongs to no record (%d NULs for %d lines)" % (stray_nul, len(lines))))
    if b"\x00" in body:
        out.append((dict(base, symptom="nul-inside-line"), "NUL byte inside a printed line"))
    got = []
    for ln in lines:
        m = LINE_RE.match(ln)
        if not m:
            out.append((dict(base, symptom="unparseable-line"), "printed line without the prepended datetime: %r" % ln[:80]))
            return out
        toks = [t for (t, _, _, _) in meta if t in m.group(2)]
        got.append((m.group(1), toks, m.group(2)))
    if len(got) != len(exp):
        kind = "records-missing" if len(got) < len(exp) else "records-repeated"
        feats = dict(base, symptom=kind, printed=len(got), expected=len(exp))
        # discriminate the known overwrite: exactly the records that share a time value with a later record vanish
        distinct_times = len(set(times))
        feats["printed_equals_distinct_time_values"] = len(got) == distinct_times
        out.append((feats, "%d records in the file, %d printed" % (len(exp), len(got))))
        return out
    for (dt, toks, text), (tok, sec, usec, _pos) in zip(got, exp):
        if toks != [tok]:
            sym = "wrong-order" if sorted(t for _, ts, _ in got for t in ts) == sorted(t for t, _, _, _ in meta) else "wrong-record-text"
            out.append((dict(base, symptom=sym), "expected record %r at this position, line carries tokens %r" % (tok, toks)))
            return out
        if dt != fmt_dt(sec, usec):
            out.append((dict(base, symptom="wrong-instant"), "record %r: printed instant %r, stored time value %r" % (tok, dt, fmt_dt(sec, usec))))
            return out
        # the time value shown in the record text must be the stored one
        if usec and layouts.usec_capable(lay):
            ok = (b"%d.%06d" % (sec, usec)) in text
            if not ok:
                out.append((dict(base, symptom="time-field-text", unpadded_usec=(b"%d.%d" % (sec, usec)) in text),
                            "record %r: the time value in the record text is not %d.%06d: %r" % (tok, sec, usec, text[-60:])))
    return out


# ---- part F: each printed line shows that record's own field values -------------------------------------------
LINUX_TYPES = {"EMPTY": 0, "RUN_LVL": 1, "BOOT_TIME": 2, "NEW_TIME": 3, "OLD_TIME": 4, "INIT_PROCESS": 5, "LOGIN_PROCESS": 6,
               "USER_PROCESS": 7, "DEAD_PROCESS": 8, "ACCOUNTING": 9}
TYPE_NAMES = ("RUN_LVL", "BOOT_TIME", "OLD_TIME", "NEW_TIME", "INIT_PROCESS", "LOGIN_PROCESS", "USER_PROCESS", "DEAD_PROCESS", "ACCOUNTING",
              "SIGNATURE", "DOWN_TIME", "SHUTDOWN_TIME")
TIME_FIELDS = {"ut_tv", "ut_time", "ut_xtime", "ll_time", "ll_tv", "ac_btime"}
# fields printed under another label
LABEL_OF = {"ut_exit": ("ut_exit", "e_termination"), "ut_addr_v6": ("ut_addr",)}
NO_DECIMAL = {"ac_flag", "ac_etime", "ac_utime", "ac_stime", "ac_mem", "ac_io", "ac_rw", "ac_minflt", "ac_majflt", "ac_swaps", "ut_exit", "ac_tty", "ut_addr_v6", "ut_addr"}


def field_table(lay):
    f = dict(lay["fields"])
    if lay["id"] == "linux_x86_utmpx" and "ut_addr_v6" not in f:
        f["ut_addr_v6"] = (348, 16)       # struct utmp (x86): ut_tv at 340 (2 x int32), then int32_t ut_addr_v6[4]
    return f


def field_cases(lay):
    """-> list of (group, variant name, record bytes, expectation) ; all records carry the same time value"""
    f = field_table(lay)
    sec, usec = E + 10, 7
    base = bytearray(layouts.record(lay, sec, usec, b"K0q0", 0))
    out = [("base", "base", bytes(base), None)]
    if "ut_type" in f:
        types = {k: v for k, v in lay["consts"].items() if k in TYPE_NAMES} or {k: v for k, v in LINUX_TYPES.items() if k in TYPE_NAMES}
        for name, val in sorted(types.items(), key=lambda kv: kv[1]):
            b = bytearray(base)
            layouts._put(b, f["ut_type"][0], f["ut_type"][1], val)
            out.append(("ut_type", name, bytes(b), ("type-name", name, val)))
    seen = set()
    for name, (off, sz) in sorted(f.items(), key=lambda kv: kv[1]):
        if "." in name or name in TIME_FIELDS or name == "ut_type" or (off, sz) in seen or name == "ut_addr":
            continue
        seen.add((off, sz))
        if name == "ut_addr_v6":
            words = [0x0100007F, 0x00000001, 0x01000000, 0xABCD0123]
            for mask in range(16):
                b = bytearray(base)
                for i in range(4):
                    layouts._put(b, off + 4 * i, 4, words[i] if mask >> i & 1 else 0)
                out.append((name, "words%s" % format(mask, "04b")[::-1], bytes(b), None))
            continue
        if name == "ut_exit" and sz == 4:
            # struct exit_status { short e_termination; short e_exit; }: the two halves are shown separately
            for et, ee in ((1, 0), (0, 1), (1, 1), (2, 1), (1, 2), (15, 3)):
                b = bytearray(base)
                layouts._put(b, off, 2, et)
                layouts._put(b, off + 2, 2, ee)
                out.append((name, "term%d_exit%d" % (et, ee), bytes(b), None))
            continue
        is_str = sz > 8 or name in ("ut_id", "ut_line", "ut_name", "ut_user", "ut_host", "ll_line", "ll_host", "ac_comm")
        if is_str:
            esz = 16 if (name == "ac_comm" and sz == 17) else sz      # char ac_comm[ACCT_COMM + 1]: the last byte is the terminator
            vals = [("a", b"a"), ("b", b"b"), ("full-a", b"a" * esz), ("full-a-last-b", b"a" * (esz - 1) + b"b"), ("ab", b"ab")]
            for vn, v in vals:
                b = bytearray(base)
                b[off:off + sz] = v[:sz].ljust(sz, b"\0")
                out.append((name, vn, bytes(b), None))
        else:
            wide = int.from_bytes(bytes([8, 7, 6, 5, 4, 3, 2, 1][8 - sz:]), "big") & ((1 << (8 * sz - 1)) - 1)
            for v in (1, 2, wide):
                b = bytearray(base)
                layouts._put(b, off, sz, v)
                out.append((name, "int%d" % v, bytes(b), ("decimal", name, v)))
    return out


def part_fields(res, tier, work):
    items = []
    for l in layouts.LAYOUTS:
        lay = layouts.layout(l[0])
        for k, (group, vn, rec, exp) in enumerate(field_cases(lay)):
            d = os.path.join(work, "F_%s_%d" % (l[0], k))
            os.makedirs(d)
            common.write_file(os.path.join(d, lay["file"]), rec)
            items.append((l[0], group, vn, rec, exp, d, lay["file"]))

    def one(it):
        args = ["--color", "never", "-u", "-d", DTFMT, "-t", "+00:00", it[6]]
        return it, args, common.run_s4(args, cwd=it[5])
    texts = {}
    for it, args, r in common.pmap(one, items):
        lid, group, vn, rec, exp, d, fname = it
        res.count()
        res.distinct(("field", lid, group, vn))
        body = r.out.replace(b"\n\x00", b"\n")
        lines = [x for x in body.split(b"\n") if x]
        m = LINE_RE.match(lines[0]) if len(lines) == 1 else None
        texts[(lid, group, vn)] = (m.group(2) if m else None, args, rec, fname, len(lines))
    for l in layouts.LAYOUTS:
        lid = l[0]
        lay = layouts.layout(lid)
        base_text = texts[(lid, "base", "base")][0]
        groups = {}
        for (li, group, vn), v in texts.items():
            if li == lid and group != "base":
                groups.setdefault(group, []).append((vn, v))
        for group, lst in sorted(groups.items()):
            labels = LABEL_OF.get(group, (group,))
            printed = base_text is not None and any(lb.encode() in base_text for lb in labels)
            if not printed and group != "ut_type":
                continue           # the program does not show this field (padding, reserved)
            feats0 = {"part": "fields", "layout": lid, "field": group}
            seen_text = {}
            for vn, (text, args, rec, fname, nlines) in sorted(lst):
                rep = {"engine": "E-CLI", "args": args, "files": {fname: common.b64(rec)}, "layout": lid, "records": []}
                if text is None:
                    res.violation(dict(feats0, symptom="record-not-printed", variant=vn.rstrip("0123456789")),
                                  "%s: record with %s=%s printed %d lines" % (lid, group, vn, nlines), rep)
                    continue
                if text in seen_text:
                    res.violation(dict(feats0, symptom="different-field-values-same-text"),
                                  "%s: records that differ only in %s (%s vs %s) print the same text %r" % (lid, group, seen_text[text], vn, text[:120]), rep)
                seen_text.setdefault(text, vn)
            for (li, g, vn), (text, args, rec, fname, nlines) in texts.items():
                if li != lid or g != group or text is None:
                    continue
                exp = [e for (a, b_, c, e, _d, _f, _g) in [(i[0], i[1], i[2], i[4], 0, 0, 0) for i in items] if (a, b_, c) == (lid, group, vn)][0]
                if not exp:
                    continue
                rep = {"engine": "E-CLI", "args": args, "files": {fname: common.b64(rec)}, "layout": lid, "records": []}
                if exp[0] == "type-name":
                    mm = re.search(rb"ut_type (\S+)", text)
                    if not mm or mm.group(1).decode() != exp[1]:
                        res.violation(dict(feats0, symptom="type-name", platform_numbering_differs_from_linux=LINUX_TYPES.get(exp[1]) != exp[2]),
                                      "%s: ut_type %d is %s on this platform, printed %r" % (lid, exp[2], exp[1], mm.group(1) if mm else None), rep)
                elif exp[0] == "decimal" and group not in NO_DECIMAL:
                    mm = re.search(rb"\b" + group.encode() + rb" '?(-?\d+)'?", text)
                    sz = field_table(lay)[group][1]
                    if not mm or int(mm.group(1)) not in (exp[2], exp[2] - (1 << (8 * sz))):
                        res.violation(dict(feats0, symptom="field-value-text"), "%s: %s stored %d, printed %r" % (lid, group, exp[2], mm.group(1) if mm else text[:80]), rep)
    res.coverage["part_fields_runs"] = len(items)


def run(tier, seed, build=True):
    if build:
        common.build_real()
    res = common.Result(PROP, tier, "exploration", seed)
    work = common.scratch_dir(PROP)
    try:
        cases = build_cases(tier)
        bszs_for = lambda lay: sorted({64, max(64, lay["size"]), max(64, lay["size"] + 1), 65536}) if tier == "thorough" else sorted({max(64, lay["size"] + 1), 65536})
        conts = ["plain"] + (["gz", "tar"] if tier == "thorough" else ["gz"])
        common.log("[C08] %d record files over %d layouts" % (len(cases), len(layouts.LAYOUTS)))
        items = []
        for ci, (lid, assign, nulls, nullkind, fat) in enumerate(cases):
            lay = layouts.layout(lid)
            data, meta = make_file(lay, assign, nulls, nullkind, fat)
            d = os.path.join(work, "c%d" % ci)
            os.makedirs(d)
            common.write_file(os.path.join(d, lay["file"]), data)
            for cont in conts:
                if cont != "plain" and (len(assign) < 2 or nulls):
                    continue
                fname = lay["file"]
                if cont == "gz":
                    fname = lay["file"] + ".gz"
                    common.write_file(os.path.join(d, fname), gen.gz(data))
                elif cont == "tar":
                    fname = "a.tar"
                    common.write_file(os.path.join(d, fname), gen.tar([(lay["file"], data)]))
                for bsz in (bszs_for(lay) if cont == "plain" else [65536]):
                    items.append((ci, lid, assign, (nulls, nullkind, fat), cont, fname, bsz, d, meta))

        def one(it):
            ci, lid, assign, nulls, cont, fname, bsz, d, meta = it
            args = ["--color", "never", "-u", "-d", DTFMT, "-t", "+00:00", "--blocksz", str(bsz), fname]
            return it, args, common.run_s4(args, cwd=d)

        for it, args, r in common.pmap(one, items):
            ci, lid, assign, nulls, cont, fname, bsz, d, meta = it
            lay = layouts.layout(lid)
            res.count()
            res.distinct((lid, assign, nulls))
            for feats, what in judge(lay, meta, r, nulls):
                feats = dict(feats, container=cont)
                res.violation(feats, "%s records=%s nulls=%s %s blocksz %d: %s" % (lid, assign, nulls, cont, bsz, what),
                              {"engine": "E-CLI", "args": args, "files": {fname: common.b64(open(os.path.join(d, fname), "rb").read())},
                               "layout": lid, "records": [(t.decode(), s_, u, p) for t, s_, u, p in meta]})
        part_fields(res, tier, work)
        res.sample({"layout": "netbsd_x8664_utmpx", "time_assignment": [2, 0, 0], "null_records_before_index": [1], "argv": ["--color", "never", "-u", "-d", DTFMT, "--blocksz", "521", "wtmpx"]})
        res.coverage["rule"] = ("16 record layouts (offset tables parsed from the platform documents in /repo/logs) x n<=3/4 records x EVERY assignment of time values from a 3-point domain "
                                "(all duplicate/disorder patterns) x all-zero records before/between/after x block sizes x {plain, gz, tar}; oracle: printed sequence = stable sort by time of the "
                                "non-null records, each line carrying exactly its record's unique tokens, printed instant = stored time value, no bytes outside record lines. "
                                "distinct_nontrivial = distinct (layout, time assignment, null pattern)")
    finally:
        shutil.rmtree(work, ignore_errors=True)
    res.assumptions += ["records are made plausible (valid ut_type, printable NUL-padded strings) because the reader scores candidates; layout tables come from logs/*/utmp-offsets_*.out.txt"]
    return res.finish()


def replay(path, build=True):
    import base64
    import json
    if build:
        common.build_real()
    j = json.load(open(path))
    r = j["replay"]
    work = common.scratch_dir(PROP + "r")
    try:
        for fn, b in r["files"].items():
            common.write_file(os.path.join(work, fn), base64.b64decode(b))
        x = common.run_s4(r["args"], cwd=work)
        lay = layouts.layout(r["layout"])
        meta = [(t.encode(), s_, u, p) for t, s_, u, p in r["records"]]
        v = judge(lay, meta, x)
        common.log("stdout: %r" % x.out[:600])
        for feats, what in v:
            common.log("  %s %s" % (feats, what))
        want = j["features"].get("symptom")
        if any(f.get("symptom") == want for f, _ in v):
            common.log("VIOLATION property=%s replay=%s" % (PROP, path))
            return common.EXIT_VIOLATION
        return common.EXIT_OK
    finally:
        shutil.rmtree(work, ignore_errors=True)
