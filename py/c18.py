"""C18 — no temporary files are left behind, even on Ctrl-C. Engine: E-SCHED with the cfg(s4_verif) hooks:
SIGINT delivery is a schedulable event at every quiescent point; process death at main's return freezes all
other threads where they are."""
import os
import shutil

import common
import gen
import samples
import sched
import c06

PROP = "C18"
E = gen.EPOCH_2000


def configs(work, tier):
    cfgs = []
    d = os.path.join(work, "j1")
    p = samples.journal(d, "u3", "a.journal")
    if p:
        data = open(p, "rb").read()
        os.remove(p)
        common.write_file(os.path.join(d, "a.journal.gz"), gen.gz(data, 1))
        cfgs.append(("j1", d, ["a.journal.gz"]))
        d2 = os.path.join(work, "j1t")
        common.write_file(os.path.join(d2, "a.journal.gz"), gen.gz(data, 1))
        common.write_file(os.path.join(d2, "t.log"), gen.text_log([(1680419210000, b"between")]))
        cfgs.append(("j1t", d2, ["a.journal.gz", "t.log"]))
    if p:
        # a journal inside a tar archive (extracted to a temporary file as well)
        d3 = os.path.join(work, "jt")
        common.write_file(os.path.join(d3, "a.tar"), gen.tar([("x.journal", data)]))
        cfgs.append(("jt", d3, ["a.tar|x.journal"]))      # the worker thread of a tar member is named `archive|member`
        # two compressed sources: one may have finished (its temporary file already gone) when the signal arrives
        d4 = os.path.join(work, "jj")
        common.write_file(os.path.join(d4, "a.journal.gz"), gen.gz(data, 1))
        common.write_file(os.path.join(d4, "b.journal.gz"), gen.gz(data, 1))
        cfgs.append(("jj", d4, ["a.journal.gz", "b.journal.gz"]))
    ev = os.path.join(work, "e1")
    pe = samples.evtx(ev, "noevents", "e.evtx")
    if pe and tier == "thorough":
        blob = open(pe, "rb").read()
        os.remove(pe)
        common.write_file(os.path.join(ev, "e.evtx.gz"), gen.gz(blob, 1))
        if p:
            common.write_file(os.path.join(ev, "b.journal.xz"), gen.xz(data, 0))
            cfgs.append(("ej", ev, ["b.journal.xz", "e.evtx.gz"]))
    return cfgs


def classify(x):
    """feature vector of a leaking execution"""
    tr = x.trace or {}
    ev = tr.get("events", [])
    sig = "sigint" in ev
    feats = {"sigint_delivered": sig, "leaked_files": min(len(x.tmp_left), 2)}
    th = {t["name"]: t["status"] for t in tr.get("threads", [])}
    workers = sorted(k for k in th if k.startswith("w"))
    # where was each worker frozen when main returned?
    frozen = sorted(set(th[w].split("@")[0] + ("@" + th[w].split("@")[1].rstrip("0123456789") if "@" in th[w] else "") for w in workers))
    feats["workers_frozen_at"] = ",".join(frozen)
    if sig:
        si = ev.index("sigint")
        names = [t["name"] for t in tr.get("threads", [])]
        htid = names.index("handler") if "handler" in names else None
        hl = [i for i, e in enumerate(ev) if htid is not None and e == "l%d:NTF" % htid]
        sweep = hl[0] if hl else None          # the handler takes the list lock, then removes every listed file
        # per worker still alive at death: does it own a temporary file that was NOT on the list when the handler swept it?
        explained = 0
        for tid, nm in enumerate(names):
            if not nm.startswith("w") or th[nm] == "finished":
                continue
            created = any(e == "p%d:ntf_created" % tid for e in ev) or th[nm].startswith("parked@P:ntf_created") or th[nm].startswith("parked@L:NTF")
            wl = [i for i, e in enumerate(ev) if e == "l%d:NTF" % tid]      # the push happens under this lock
            listed_before_sweep = bool(wl) and (sweep is None or wl[0] < sweep)
            # had the worker already gone past the point where it lists its file (it sent something) when the handler swept?
            chan = int(nm[1:])
            sent_before_sweep = sweep is not None and any(e in ("s%d" % chan, "e%d" % chan) for e in ev[:sweep])
            if created and sweep is not None and not listed_before_sweep and not sent_before_sweep:
                explained += 1
        feats["signal_position"] = "before-any-tempfile-listed" if not any(e.endswith(":ntf_listed") for e in ev[:si]) else "after-some-tempfile-listed"
        feats["every_leaked_file_was_listed_after_the_handler_sweep_or_never"] = explained >= len(x.tmp_left)
    return feats


def run(tier, seed, build=True):
    if build:
        common.build_harness(("s4v",))
    res = common.Result(PROP, tier, "model_checking", seed)
    work = common.scratch_dir(PROP)
    tot_states = tot_trans = tot_exec = 0
    per_cfg = {}
    try:
        cfgs = configs(work, tier)
        if not cfgs:
            raise common.MachineryError("no compressed journal/evtx source obtainable")
        for name, d, srcs in cfgs:
            # sig: False = no signal; True = SIGINT as an event; "epipe" = no signal, but nobody reads stdout any more (every print fails)
            for sig in (False, True) + (("epipe",) if name in ("j1", "j1t", "jj") else ()):
                argfiles = ["a.tar"] if name == "jt" else srcs
                epipe = sig == "epipe"
                if epipe:
                    sig = False
                cfg = sched.Config(name + ("+sigint" if sig else "") + ("+epipe" if epipe else ""), d, ["--color", "never", "-t", "+00:00"] + argfiles, srcs, sigint=sig, hooks=True, postops=True,
                                   exec_timeout=120, stdout_closed=epipe)
                x0 = cfg.run([])
                if x0.trace is None:
                    raise common.MachineryError("default schedule of %s left no trace: rc=%s %r" % (cfg.name, x0.rc, x0.err[-300:]))
                expected_out = x0.out

                def judge(x, sig=sig, expected_out=expected_out):
                    tr = x.trace
                    if tr is None:
                        return ({"symptom": "no-trace", "rc": x.rc}, "execution ended without a scheduler trace (rc=%s, stderr %r)" % (x.rc, x.err[-200:]))
                    oc = tr.get("outcome")
                    if oc == "killed-by-sigint":
                        # SIGINT arrived while no handler was installed: the process is gone at once; nothing may be left behind
                        if x.tmp_left:
                            return ({"symptom": "tempfile-left", "sigint_delivered": True, "handler_installed": False, "leaked_files": min(len(x.tmp_left), 2)},
                                    "SIGINT with no handler installed ended the process while temporary file(s) %s existed (events: %s)" % (x.tmp_left, " ".join(tr.get("events", [])[-14:])))
                        return None
                    if oc != "completed":
                        return ({"symptom": oc, "sigint_delivered": "sigint" in tr.get("events", [])}, "scheduler outcome %s: %s" % (oc, tr.get("what", "")))
                    ev = tr.get("events", [])
                    if "sigint" in ev:
                        # "an interrupt ends the run promptly": once the handler has finished, main must not wait for the
                        # workers to work through their files (sends after h_end that precede main's join are such work)
                        hend = [i for i, e in enumerate(ev) if e.endswith(":h_end")]
                        jn = [i for i, e in enumerate(ev) if e == "l0:JOIN"]
                        if hend and jn and jn[0] > hend[0]:
                            work = [e for e in ev[hend[0]:jn[0]] if (e[0] in "se" and e[1:].isdigit())]
                            if work:
                                return ({"symptom": "interrupt-not-prompt", "sigint_delivered": True},
                                        "after the SIGINT handler finished, main waited for the workers: %d worker sends happened before it could return (events: %s)" % (len(work), " ".join(ev[-16:])))
                    if x.tmp_left:
                        f = classify(x)
                        f["symptom"] = "tempfile-left"
                        return (f, "temporary file(s) %s left in TMPDIR when main returned (events: %s)" % (x.tmp_left, " ".join(tr.get("events", [])[-14:])))
                    if "sigint" not in tr.get("events", []) and x.out != expected_out:
                        return ({"symptom": "stdout-differs"}, "stdout differs between signal-free schedules")
                    return None
                budget = (12000, 45) if tier == "quick" else (40000, 60)
                if (name != "j1" or epipe) and tier == "quick":
                    budget = (1500, 12)
                try:
                    if name in ("j1", "j1t") or tier == "thorough":
                        st, viols = sched.explore(cfg, judge, mode="pruned", max_execs=budget[0], max_wall=budget[1])
                    else:
                        st, viols = sched.Stats(), []
                    # unpruned, deviation-bounded: every position of the signal along the default schedule plus one more deviation
                    if sig or name in ("jt", "jj"):
                        dmax = (2 if sig else 1) if (tier == "thorough" or name == "j1") else 1
                        st2, viols2 = sched.explore(cfg, judge, mode="dev", max_dev=dmax, max_execs=budget[0], max_wall=budget[1])
                        common.log("[C18] %-10s dev<=%d: %s" % (cfg.name, dmax, st2.as_dict()))
                        viols = viols + viols2
                        st.executions += st2.executions
                        st.transitions += st2.transitions
                        st.states |= st2.states
                        st.tmp_left_execs += st2.tmp_left_execs
                        if not st2.exhausted:
                            st.exhausted, st.cap = False, st2.cap
                except common.MachineryError as e:
                    res.machinery.append(str(e))
                    continue
                common.log("[C18] %-10s %s" % (cfg.name, st.as_dict()))
                per_cfg[cfg.name] = dict(st.as_dict(), executions_leaving_a_tempfile=st.tmp_left_execs)
                tot_states += len(st.states)
                tot_trans += st.transitions
                tot_exec += st.executions
                res.count(st.executions)
                for s_ in st.states:
                    res.distinct((cfg.name, s_))
                if not st.exhausted:
                    res.cap("%s: %s" % (cfg.name, st.cap))
                for feats, what, choices in viols:
                    res.violation(dict(feats, config=name), "%s [config %s]" % (what, cfg.name),
                                  {"engine": "E-SCHED", "property": PROP, "args": cfg.args, "sources": cfg.sources, "config_dir": name, "choices": choices,
                                   "sigint": sig, "hooks": True, "postops": True, "check_tmp": True, "stdout_closed": epipe})
                res.sample({"config": cfg.name, "argv": cfg.args, "default_schedule_events": x0.trace.get("events")})
    finally:
        shutil.rmtree(work, ignore_errors=True)
    res.coverage.update({
        "states": max(tot_states, 1), "transitions": max(tot_trans, 1), "traces_validated_against_impl": tot_exec,
        "rule": "one evaluation = one complete execution of the real s4 coordinator, worker and signal-handler code under one schedule, with SIGINT delivery as a schedulable event "
                "(at most one per execution) and process death at main's return; distinct_nontrivial = distinct scheduler-state fingerprints",
        "per_configuration": per_cfg,
    })
    res.assumptions += ["scheduling points: channel operations (+ a yield after each send), endpoint drops, the two global locks, temp-file life-cycle points, handler points",
                        "at most one SIGINT per execution; no weak-memory effects; the ctrlc crate's own signal plumbing is replaced by a scheduler event"]
    return res.finish()


def replay(path, build=True):
    import json
    if build:
        common.build_harness(("s4v",))
    j = json.load(open(path))
    r = j["replay"]
    work = common.scratch_dir(PROP + "r")
    try:
        for name, d, srcs in configs(work, "thorough"):
            if name != r["config_dir"]:
                continue
            cfg = sched.Config("replay", d, r["args"], r["sources"], sigint=r["sigint"], hooks=True, postops=True, exec_timeout=120, stdout_closed=bool(r.get("stdout_closed")))
            x1 = cfg.run(r["choices"])
            x2 = cfg.run(r["choices"])
            if (x1.trace is None) != (x2.trace is None) or (x1.trace and sched.trace_key(x1.trace) != sched.trace_key(x2.trace)) or x1.tmp_left != x2.tmp_left and False:
                raise common.MachineryError("replay is not deterministic")
            oc = x1.trace.get("outcome") if x1.trace else "no-trace"
            common.log("outcome=%s rc=%s tmp_left=%s" % (oc, x1.rc, x1.tmp_left))
            if x1.trace:
                common.log("events: %s" % " ".join(x1.trace.get("events", [])))
                common.log("threads: %s" % x1.trace.get("threads"))
            if oc != "completed" or x1.tmp_left:
                common.log("VIOLATION property=%s replay=%s" % (PROP, path))
                return common.EXIT_VIOLATION
            return common.EXIT_OK
        raise common.MachineryError("config %s not available" % r["config_dir"])
    finally:
        shutil.rmtree(work, ignore_errors=True)
