"""C02 — every message of a text log printed exactly once, byte for byte. Engines: E-SEQ (+ E-CLI leg)."""
import json
import os
import re
import shutil
import subprocess

import common
import seqxdrv

PROP = "C02"
SUB = "c02"


def cli_features(ent, bsz, symptom):
    blk0 = min(bsz, ent["len"])
    return {"level": "cli", "symptom": symptom, "first_head_line_inside_block0": ent["first_head_line_end"] <= blk0,
            "block0_ge_8096": blk0 >= 8096}


def cli_leg(res, tier, prop):
    """The real binary on a corpus exported by seqx: stdout must be file[first_head..] (+ supplied newline);
    this is also the conformance step between the in-process transcription and the shipped program."""
    work = common.scratch_dir(prop + "cli")
    try:
        p = subprocess.run([common.SEQX, "c02-corpus", work, "--tier", tier], capture_output=True, text=True)
        if p.returncode != 0:
            raise common.MachineryError("seqx c02-corpus failed: " + p.stderr[-400:])
        idx = json.load(open(os.path.join(work, "index.json")))
        items = []
        for ent in idx:
            bszs = sorted({64, ent["bsz0"] + 1, 65536} | ({128, 255} if tier == "thorough" else set()))
            for b in bszs:
                items.append((ent, b))

        def one(it):
            ent, b = it
            r = common.run_s4(["--color", "never", "-t", "+00:00", "--blocksz", str(b), ent["name"]], cwd=work)
            return ent, b, r

        base = {}
        n = 0
        for ent, b, r in common.pmap(one, items):
            n += 1
            res.count()
            data = open(os.path.join(work, ent["name"]), "rb").read()
            exp = data[ent["first_head"]:]
            if exp and not exp.endswith(b"\n"):
                exp += b"\n"
            replay = {"engine": "E-CLI", "args": ["--color", "never", "-t", "+00:00", "--blocksz", str(b), ent["name"]],
                      "files": {ent["name"]: common.b64(data)}, "expected_stdout": common.b64(exp)}
            if r.timed_out or r.rc not in (0, 1):
                res.violation(cli_features(ent, b, "crash"), "real binary: rc=%s timed_out=%s at blocksz %d" % (r.rc, r.timed_out, b), replay)
                continue
            if prop == "C12":
                if b == 65536:
                    base[ent["name"]] = r.out
                continue
            if r.out != exp:
                sym = "rejected" if not r.out else "bytes-differ"
                res.violation(cli_features(ent, b, sym), "real binary at blocksz %d: stdout (%d bytes) is not file[first_head..] (%d bytes)" % (b, len(r.out), len(exp)), replay)
        if prop == "C12":
            for ent, b, r in common.pmap(one, [it for it in items if it[1] != 65536]):
                res.count()
                if r.out != base.get(ent["name"]):
                    data = open(os.path.join(work, ent["name"]), "rb").read()
                    sym = "rejected" if not r.out else ("accepted-only-here" if not base.get(ent["name"]) else "bytes-differ")
                    res.violation(cli_features(ent, b, sym),
                                  "real binary: stdout at --blocksz %d (%d bytes) differs from stdout at the default block size (%d bytes)" % (b, len(r.out), len(base.get(ent["name"]) or b"")),
                                  {"engine": "E-CLI", "args": ["--color", "never", "-t", "+00:00", "--blocksz", str(b), ent["name"]],
                                   "files": {ent["name"]: common.b64(data)}, "expected_stdout": common.b64(base.get(ent["name"]) or b"")})
        if prop == "C12":
            n += color_leg(res, tier, work, idx)
        res.coverage["cli_leg_runs"] = n
        res.sample({"level": "cli", "argv": ["--color", "never", "-t", "+00:00", "--blocksz", "65", idx[3]["name"]], "file_len": idx[3]["len"], "messages": idx[3]["n"]})
    finally:
        shutil.rmtree(work, ignore_errors=True)


def preamble_leg(res, tier, prop):
    """Files that do not start with their first timestamped line: a preamble of N filler bytes (NUL, space, 0xFF, newline,
    'x') then a newline, then messages. C02: stdout is the file from the first timestamped line on, at every block size;
    C12: stdout at every block size equals stdout at the default block size."""
    import gen
    work = common.scratch_dir(prop + "pre")
    try:
        E = gen.EPOCH_2000 * 1000
        body = gen.text_log([(E + i * 1000, b"msg %d" % i, [b"cont"] if i == 1 else []) for i in range(4)])
        ns = [1, 63, 64, 65, 127, 128, 129, 200, 1000] if tier == "quick" else [1, 2, 31, 63, 64, 65, 100, 126, 127, 128, 129, 130, 191, 192, 200, 255, 256, 257, 1000, 5000, 70000]
        fillers = [(b"\x00", "nul"), (b" ", "space"), (b"\xff", "ff"), (b"\n", "newline"), (b"x", "x")]
        bszs = [64, 65, 100, 127, 128, 129, 200, 256, 1024, 65536] if tier == "quick" else [64, 65, 66, 90, 100, 126, 127, 128, 129, 130, 192, 200, 255, 256, 257, 512, 1000, 1024, 4096, 8096, 65536, 0x20000]
        ents = []
        for n in ns:
            for fb, fname in fillers:
                for nl in (True, False):
                    if not nl and fname != "nul":
                        continue      # filler running straight into the first stamp: only NUL is skipped by the line scanner
                    name = "pre_%s_%d_%d.log" % (fname, n, nl)
                    data = fb * n + (b"\n" if nl else b"") + body
                    common.write_file(os.path.join(work, name), data)
                    ents.append({"name": name, "filler": fname, "n": n, "newline_after": nl, "data": data, "exp": body})

        def one(it):
            ent, b = it
            return ent, b, common.run_s4(["--color", "never", "-t", "+00:00", "--blocksz", str(b), ent["name"]], cwd=work)
        outs = {}
        for ent, b, r in common.pmap(one, [(e, b) for e in ents for b in bszs]):
            res.count()
            res.distinct(("preamble", ent["name"], b))
            outs[(ent["name"], b)] = r
        nv = 0
        for ent in ents:
            ref = outs[(ent["name"], 65536)]
            for b in bszs:
                r = outs[(ent["name"], b)]
                first_end = ent["n"] + (1 if ent["newline_after"] else 0) + body.index(b"\n") + 1
                feats = cli_features({"len": len(ent["data"]), "first_head_line_end": first_end}, b, None)
                del feats["symptom"]
                feats.update({"input": "preamble", "filler": ent["filler"], "filler_len_ge_128": ent["n"] >= 128,
                              "first_head_line_inside_default_block0": first_end <= min(65536, len(ent["data"])),
                              "filler_len_64_to_127": 64 <= ent["n"] < 128, "blocksz_lt_128": b < 128, "newline_after_filler": ent["newline_after"]})
                rep = {"engine": "E-CLI", "args": ["--color", "never", "-t", "+00:00", "--blocksz", str(b), ent["name"]], "files": {ent["name"]: common.b64(ent["data"])}}
                if r.timed_out or r.rc not in (0, 1):
                    res.violation(dict(feats, symptom="crash"), "%s at --blocksz %d: rc=%s" % (ent["name"], b, r.rc), dict(rep, expected_stdout=common.b64(ent["exp"])))
                    continue
                if prop == "C12":
                    if b != 65536 and r.out != ref.out:
                        sym = "rejected" if not r.out else ("accepted-only-here" if not ref.out else "bytes-differ")
                        res.violation(dict(feats, symptom=sym), "%d x %s then messages: stdout at --blocksz %d (%d bytes) differs from stdout at the default block size (%d bytes)" % (
                            ent["n"], ent["filler"], b, len(r.out), len(ref.out)), dict(rep, expected_stdout=common.b64(ref.out)))
                else:
                    exp = ent["exp"] if ent["newline_after"] else None
                    if exp is not None and r.out != exp:
                        sym = "rejected" if not r.out else "bytes-differ"
                        res.violation(dict(feats, symptom=sym), "%d x %s + newline then messages: stdout at --blocksz %d (%d bytes) is not the file from its first timestamped line (%d bytes)" % (
                            ent["n"], ent["filler"], b, len(r.out), len(exp)), dict(rep, expected_stdout=common.b64(exp)))
        res.coverage["preamble_leg_runs"] = len(outs)
    finally:
        shutil.rmtree(work, ignore_errors=True)


_ESC = re.compile(rb"\x1b\[[0-9;]*m")


def color_leg(res, tier, work, idx):
    """C12 with --color always: the coloured stdout (escape sequences included) at every block size of a dense
    range must equal the coloured stdout at the default block size."""
    import gen
    ents = [e for e in idx if e["n"] >= 2 and e["first_head"] == 0 and e["len"] < 700][: (120 if tier == "quick" else 600)]
    bszs = list(range(64, 97)) if tier == "quick" else list(range(64, 140))
    E = gen.EPOCH_2000 * 1000
    # small files whose timestamps end exactly at / one before / one after a block end for some block size of the range
    for nm in (2, 3, 4):
        for extra in ([], [b"cont"]):
            for ll in (35, 36, 37):
                name = "k%d%d%d.log" % (nm, len(extra), ll)
                data = gen.text_log([(E + i * 1000, b"a" * ll, extra) for i in range(nm)])
                common.write_file(os.path.join(work, name), data)
                ents.append({"name": name, "n": nm, "first_head": 0, "len": len(data), "first_head_line_end": 26 + ll + 1, "input": "small"})
    # one longer file of 40 messages with varied line lengths
    data = gen.text_log([(E + i * 1000, b"x" * (i * 7 % 90) + b" end", [b"cont " + b"y" * (i * 11 % 70)] if i % 3 == 0 else []) for i in range(40)])
    common.write_file(os.path.join(work, "col40.log"), data)
    ents.append({"name": "col40.log", "n": 40, "first_head": 0, "len": len(data), "first_head_line_end": 31, "input": "col40"})
    base = {}

    def one(it):
        ent, b = it
        return ent, b, common.run_s4(["--color", "always", "-t", "+00:00", "--blocksz", str(b), ent["name"]], cwd=work)
    for ent, b, r in common.pmap(one, [(e, 65536) for e in ents]):
        base[ent["name"]] = r.out
    n = 0
    for ent, b, r in common.pmap(one, [(e, b) for e in ents for b in bszs]):
        n += 1
        res.count()
        ref = base[ent["name"]]
        if r.out == ref:
            continue
        if ent["first_head_line_end"] > b:
            continue   # rejected at this block size: reported by the uncoloured leg
        data = open(os.path.join(work, ent["name"]), "rb").read()
        only_esc = _ESC.sub(b"", r.out) == _ESC.sub(b"", ref)
        feats = {"level": "cli", "color": "always", "symptom": "escape-sequences-differ" if only_esc else "bytes-differ", "input": ent.get("input", "corpus")}
        if only_esc:
            # which lines differ, and where does their timestamp end relative to a block boundary?
            la, lb = ref.split(b"\n"), r.out.split(b"\n")
            flines = data.split(b"\n")
            offs, o = [], 0
            for l in flines:
                offs.append(o)
                o += len(l) + 1
            at_boundary = []
            for i, (x, y) in enumerate(zip(la, lb)):
                if x != y and i < len(flines):
                    dt_end = offs[i] + 24       # `[` + 23 characters of timestamp; exclusive end
                    at_boundary.append(flines[i].startswith(b"[") and dt_end % b == 0)
            feats["every_differing_line_has_timestamp_ending_at_block_end"] = bool(at_boundary) and all(at_boundary)
        res.violation(feats, "--color always: stdout at --blocksz %d differs from stdout at the default block size (%s)" % (b, feats["symptom"]),
                      {"engine": "E-CLI", "args": ["--color", "always", "-t", "+00:00", "--blocksz", str(b), ent["name"]],
                       "files": {ent["name"]: common.b64(data)}, "expected_stdout": common.b64(ref)})
    return n


def run(tier, seed, build=True, prop=PROP, sub=SUB):
    if build:
        common.build_harness(("seqx",))
        common.build_real()
    res = common.Result(prop, tier, "model_checking", seed)
    s = seqxdrv.run_sub(res, sub, tier)
    seqxdrv.merge_summary(res, s)
    cli_leg(res, tier, prop)
    preamble_leg(res, tier, prop)
    cov = res.coverage
    cov.setdefault("states", s.get("states") or s["distinct_nontrivial"])
    cov.setdefault("transitions", s.get("transitions") or s["evaluations"])
    cov["traces_validated_against_impl"] = cov["evaluations"]
    cov["explanation"] = "every case runs the real LineReader/SyslineReader/SyslogProcessor (in-process) or the real binary; the reference model is a byte-level splitter that knows the generated message boundaries"
    res.assumptions += ["messages use the bracketed `[YYYY/MM/DD hh:mm:ss.mmm]` notation; continuation lines contain no digit",
                        "processor-level runs are a transcription of exec_syslogprocessor's loop, kept honest by the E-CLI leg on the same files"]
    return res.finish()


def replay(path, build=True, prop=PROP, sub=SUB):
    if build:
        common.build_harness(("seqx",))
        common.build_real()
    r = json.load(open(path))["replay"]
    if r.get("engine") == "E-CLI":
        return common_replay_cli(path, r, prop)
    p = subprocess.run([common.SEQX, sub, "--replay", path], capture_output=True, text=True)
    common.log(p.stdout.strip()[-2000:])
    if p.returncode == 1:
        common.log("VIOLATION property=%s replay=%s" % (prop, path))
        return common.EXIT_VIOLATION
    return common.EXIT_OK if p.returncode == 0 else common.EXIT_MACHINERY


def common_replay_cli(path, r, prop):
    import base64
    work = common.scratch_dir(prop + "r")
    try:
        for fn, b in r.get("files", {}).items():
            common.write_file(os.path.join(work, fn), base64.b64decode(b))
        x = common.run_s4(r["args"], cwd=work, stdin=base64.b64decode(r["stdin"]) if r.get("stdin") else None)
        exp = base64.b64decode(r["expected_stdout"]) if "expected_stdout" in r else None
        common.log("rc=%s stdout=%d bytes expected=%s equal=%s" % (x.rc, len(x.out), None if exp is None else len(exp), x.out == exp))
        if exp is not None and x.out != exp or x.rc not in (0, 1):
            common.log("VIOLATION property=%s replay=%s" % (prop, path))
            return common.EXIT_VIOLATION
        return common.EXIT_OK
    finally:
        shutil.rmtree(work, ignore_errors=True)
