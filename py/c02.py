"""C02 — every message of a text log printed exactly once, byte for byte. Engines: E-SEQ (+ E-CLI leg)."""
import json
import os
import shutil
import subprocess

import common
import seqxdrv

PROP = "C02"
SUB = "c02"


def cli_features(ent, bsz, symptom):
    blk0 = min(bsz, ent["len"])
    return {"level": "cli", "symptom": symptom, "first_head_line_inside_block0": ent["first_head_line_end"] <= blk0,
            "block0_ge_8096": blk0 >= 8096}


def cli_leg(res, tier, prop):
    """The real binary on a corpus exported by seqx: stdout must be file[first_head..] (+ supplied newline);
    this is also the conformance step between the in-process transcription and the shipped program."""
    work = common.scratch_dir(prop + "cli")
    try:
        p = subprocess.run([common.SEQX, "c02-corpus", work, "--tier", tier], capture_output=True, text=True)
        if p.returncode != 0:
            raise common.MachineryError("seqx c02-corpus failed: " + p.stderr[-400:])
        idx = json.load(open(os.path.join(work, "index.json")))
        items = []
        for ent in idx:
            bszs = sorted({64, ent["bsz0"] + 1, 65536} | ({128, 255} if tier == "thorough" else set()))
            for b in bszs:
                items.append((ent, b))

        def one(it):
            ent, b = it
            r = common.run_s4(["--color", "never", "-t", "+00:00", "--blocksz", str(b), ent["name"]], cwd=work)
            return ent, b, r

        base = {}
        n = 0
        for ent, b, r in common.pmap(one, items):
            n += 1
            res.count()
            data = open(os.path.join(work, ent["name"]), "rb").read()
            exp = data[ent["first_head"]:]
            if exp and not exp.endswith(b"\n"):
                exp += b"\n"
            replay = {"engine": "E-CLI", "args": ["--color", "never", "-t", "+00:00", "--blocksz", str(b), ent["name"]],
                      "files": {ent["name"]: common.b64(data)}, "expected_stdout": common.b64(exp)}
            if r.timed_out or r.rc not in (0, 1):
                res.violation(cli_features(ent, b, "crash"), "real binary: rc=%s timed_out=%s at blocksz %d" % (r.rc, r.timed_out, b), replay)
                continue
            if prop == "C12":
                if b == 65536:
                    base[ent["name"]] = r.out
                continue
            if r.out != exp:
                sym = "rejected" if not r.out else "bytes-differ"
                res.violation(cli_features(ent, b, sym), "real binary at blocksz %d: stdout (%d bytes) is not file[first_head..] (%d bytes)" % (b, len(r.out), len(exp)), replay)
        if prop == "C12":
            for ent, b, r in common.pmap(one, [it for it in items if it[1] != 65536]):
                res.count()
                if r.out != base.get(ent["name"]):
                    data = open(os.path.join(work, ent["name"]), "rb").read()
                    sym = "rejected" if not r.out else ("accepted-only-here" if not base.get(ent["name"]) else "bytes-differ")
                    res.violation(cli_features(ent, b, sym),
                                  "real binary: stdout at --blocksz %d (%d bytes) differs from stdout at the default block size (%d bytes)" % (b, len(r.out), len(base.get(ent["name"]) or b"")),
                                  {"engine": "E-CLI", "args": ["--color", "never", "-t", "+00:00", "--blocksz", str(b), ent["name"]],
                                   "files": {ent["name"]: common.b64(data)}, "expected_stdout": common.b64(base.get(ent["name"]) or b"")})
        res.coverage["cli_leg_runs"] = n
        res.sample({"level": "cli", "argv": ["--color", "never", "-t", "+00:00", "--blocksz", "65", idx[3]["name"]], "file_len": idx[3]["len"], "messages": idx[3]["n"]})
    finally:
        shutil.rmtree(work, ignore_errors=True)


def run(tier, seed, build=True, prop=PROP, sub=SUB):
    if build:
        common.build_harness(("seqx",))
        common.build_real()
    res = common.Result(prop, tier, "model_checking", seed)
    s = seqxdrv.run_sub(res, sub, tier)
    seqxdrv.merge_summary(res, s)
    cli_leg(res, tier, prop)
    cov = res.coverage
    cov.setdefault("states", s.get("states") or s["distinct_nontrivial"])
    cov.setdefault("transitions", s.get("transitions") or s["evaluations"])
    cov["traces_validated_against_impl"] = cov["evaluations"]
    cov["explanation"] = "every case runs the real LineReader/SyslineReader/SyslogProcessor (in-process) or the real binary; the reference model is a byte-level splitter that knows the generated message boundaries"
    res.assumptions += ["messages use the bracketed `[YYYY/MM/DD hh:mm:ss.mmm]` notation; continuation lines contain no digit",
                        "processor-level runs are a transcription of exec_syslogprocessor's loop, kept honest by the E-CLI leg on the same files"]
    return res.finish()


def replay(path, build=True, prop=PROP, sub=SUB):
    if build:
        common.build_harness(("seqx",))
        common.build_real()
    r = json.load(open(path))["replay"]
    if r.get("engine") == "E-CLI":
        return common_replay_cli(path, r, prop)
    p = subprocess.run([common.SEQX, sub, "--replay", path], capture_output=True, text=True)
    common.log(p.stdout.strip()[-2000:])
    if p.returncode == 1:
        common.log("VIOLATION property=%s replay=%s" % (prop, path))
        return common.EXIT_VIOLATION
    return common.EXIT_OK if p.returncode == 0 else common.EXIT_MACHINERY


def common_replay_cli(path, r, prop):
    import base64
    work = common.scratch_dir(prop + "r")
    try:
        for fn, b in r.get("files", {}).items():
            common.write_file(os.path.join(work, fn), base64.b64decode(b))
        x = common.run_s4(r["args"], cwd=work, stdin=base64.b64decode(r["stdin"]) if r.get("stdin") else None)
        exp = base64.b64decode(r["expected_stdout"]) if "expected_stdout" in r else None
        common.log("rc=%s stdout=%d bytes expected=%s equal=%s" % (x.rc, len(x.out), None if exp is None else len(exp), x.out == exp))
        if exp is not None and x.out != exp or x.rc not in (0, 1):
            common.log("VIOLATION property=%s replay=%s" % (prop, path))
            return common.EXIT_VIOLATION
        return common.EXIT_OK
    finally:
        shutil.rmtree(work, ignore_errors=True)
