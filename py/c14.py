"""C14 — datetime-filter arguments resolve to the documented instant. Engine: E-CLI over the documented grammar."""
import itertools
import os
import re
import shutil

import common
import gen

PROP = "C14"
E = gen.EPOCH_2000
SUM_RE = re.compile(rb"Datetime filter -([ab])\s*:\s*(.*)")
NOW_RE = re.compile(rb"Datetime Now\s*:\s*(.*)")
UTC_PAREN = re.compile(rb"\((\d{4})-(\d\d)-(\d\d) (\d\d):(\d\d):(\d\d) \+00:00\)")

# independently known, unambiguous abbreviations (minutes east of UTC)
ZONES = {"UTC": 0, "GMT": 0, "Z": 0, "JST": 540, "PST": -480, "PDT": -420, "EDT": -240, "CET": 60, "CEST": 120, "NZST": 720,
         "HST": -600, "AKST": -540, "EET": 120, "MSK": 180, "WET": 0}


def parse_summary(err):
    out = {"a": None, "b": None, "now": None}
    for ln in err.split(b"\n"):
        m = SUM_RE.search(ln)
        if m:
            mm = UTC_PAREN.search(m.group(2))
            out[m.group(1).decode()] = _epoch(mm) if mm else None
        m = NOW_RE.search(ln)
        if m:
            mm = UTC_PAREN.search(m.group(1))
            out["now"] = _epoch(mm) if mm else None
    return out


def _epoch(mm):
    y, mo, d, h, mi, s = [int(x) for x in mm.groups()]
    return gen.days_from_civil(y, mo, d) * 86400 + h * 3600 + mi * 60 + s


def off_str(m, style):
    sign = "+" if m >= 0 else "-"
    a = abs(m)
    if style == "hhmm":
        return "%s%02d%02d" % (sign, a // 60, a % 60)
    if style == "hh:mm":
        return "%s%02d:%02d" % (sign, a // 60, a % 60)
    assert a % 60 == 0
    return "%s%02d" % (sign, a // 60)


def ambiguous_names():
    """abbreviations the project's own table marks ambiguous (empty value): the input domain for 'must be rejected'"""
    src = open(os.path.join(common.REPO, "src", "data", "datetime.rs"), errors="replace").read()
    i = src.find("MAP_TZZ_TO_TZz")
    names = re.findall(r'\(\s*"([A-Za-z]{2,5})"\s*,\s*""\s*\)', src[i:i + 200000]) or re.findall(r'"([A-Za-z]{2,5})"\s*=>\s*""', src[i:i + 200000])
    return sorted(set(n for n in names if n.isupper()))


def probe_file(work, epoch_us_list, name="probe.txt"):
    lines = []
    for t in epoch_us_list:
        y, m, d, h, mi, s = gen.civil(t // 1000000)
        lines.append(b"%04d-%02d-%02d %02d:%02d:%02d.%06d +0000 p%d" % (y, m, d, h, mi, s, t % 1000000, t))
    common.write_file(os.path.join(work, name), b"\n".join(lines) + b"\n")
    return name


def abs_cases(tier):
    """(string, expected epoch microseconds given tz_offset minutes -> function, must_accept)"""
    # pivot instant: 2020-02-29 23:59:58 (leap day, late in the day so offsets cross midnight)
    # second pivot: day <= 12 and month != day (a swapped month/day still parses, to a different instant), early in the day
    out = []
    for pivot in ((2020, 2, 29, 23, 59, 58), (2021, 3, 4, 0, 6, 7)):
        out += _abs_cases_for(tier, pivot)
    return out


def _abs_cases_for(tier, pivot):
    Y, M, D, h, mi, s = pivot
    base = gen.days_from_civil(Y, M, D) * 86400 + h * 3600 + mi * 60 + s
    shapes = [("%04d%02d%02dT%02d%02d%02d", "", True), ("%04d-%02d-%02d %02d:%02d:%02d", " ", True),
              ("%04d-%02d-%02dT%02d:%02d:%02d", "", True), ("%04d/%02d/%02d %02d:%02d:%02d", " ", True)]
    fracs = [("", 0), (".123", 123000), (".123456", 123456)]
    zones = [(None, None)]
    for m in ([0, 540, -210, 345, -720, 840] if tier == "thorough" else [540, -210]):
        zones.append((off_str(m, "hhmm"), m))
        zones.append((off_str(m, "hh:mm"), m))
        if m % 60 == 0:
            zones.append((off_str(m, "hh"), m))
    for n, m in ZONES.items():
        if tier == "thorough" or n in ("UTC", "JST", "PST", "Z"):
            zones.append((n, m))
    out = []
    for (shape, docsep, _), (fs, fus), (zs, zm) in itertools.product(shapes, fracs, zones):
        core = shape % (Y, M, D, h, mi, s) + fs
        seps = [""] if zs is None else ["", " "]
        for sp in seps:
            st = core + (sp + zs if zs else "")
            # must-accept: the spelling the help text shows (zone-less; numeric zone appended as in the documented examples)
            must = zs is None or (sp == docsep and (zs[0] in "+-"))
            out.append((st, base, fus, zm, must, (shape, fs, sp, zs)))
    for shape in ("%04d%02d%02d", "%04d-%02d-%02d", "%04d/%02d/%02d"):
        out.append((shape % (Y, M, D), gen.days_from_civil(Y, M, D) * 86400, 0, None, True, (shape, "", "", None)))
    return out


def rel_cases(tier):
    units = {"w": 604800, "d": 86400, "h": 3600, "m": 60, "s": 1}
    counts = [0, 1, 7, 12, 100]
    out = []
    k = 0
    for r in range(1, 6):
        for perm in itertools.permutations("wdhms", r):
            if tier == "quick" and r >= 4 and k % 5:
                k += 1
                continue
            k += 1
            for sign in "+-":
                total = 0
                st = sign
                for j, u in enumerate(perm):
                    c = counts[(k + j) % len(counts)]
                    st += "%d%s" % (c, u)
                    total += c * units[u]
                out.append((st, total if sign == "+" else -total, perm == tuple(sorted(perm, key="wdhms".index))))
    return out


NEAR_MISSES = ["garbage", "garbage+1d", "2022-01-02T03:04", "2022-01-02T03:04+1d", "+1d +2h", "+1dx", "x+1d", "+", "@", "@+", "+1x", "1d", "+1D",
               "2022-01-02T03:04:05.1", "2022-01-02T03:04:05.12", "2022-01-02T03:04:05.1234", "2022-01-02T03:04:05.12345", "2022-13-02T03:04:05",
               "2022-01-32", "20220101T250000", "2022-01-02 03:04:05 +25:00x", "+94668480x", "", " "]


def run(tier, seed, build=True):
    if build:
        common.build_real()
    res = common.Result(PROP, tier, "exploration", seed)
    work = common.scratch_dir(PROP)
    try:
        common.write_file(os.path.join(work, "one.log"), gen.text_log([(E * 1000, b"x")]))
        tzs = [0, 330, -210] if tier == "quick" else [-720, -210, 0, 345, 840]
        jobs = []
        # ---- absolute forms
        spelling_of = {}
        for st, base, fus, zm, must, spelling in abs_cases(tier):
            for t in (tzs if zm is None else tzs[:1]):
                off = zm if zm is not None else t
                exp_us = (base - off * 60) * 1000000 + fus
                jobs.append(("abs", st, t, exp_us, must))
                spelling_of[(st, t)] = spelling + (t,)
        # +epoch
        for t in tzs:
            jobs.append(("epoch", "+946684800", t, 946684800 * 1000000, True))
        # ---- ambiguous names and near misses: must be rejected before anything is printed
        amb = ambiguous_names()
        for n in (amb if tier == "thorough" else amb[:12]):
            jobs.append(("reject", "2020-02-29T23:59:58 " + n, 0, None, None))
            jobs.append(("reject", "20200229T235958" + n, 0, None, None))
        for nm in NEAR_MISSES:
            jobs.append(("reject", nm, 0, None, None))
        # ---- relative to program start, and '@' relative to the other bound
        rel = rel_cases(tier)
        for st, delta, ordered in rel:
            jobs.append(("now", st, tzs[len(st) % len(tzs)], delta, ordered))
        for st, delta, ordered in rel[:: (7 if tier == "quick" else 1)]:
            jobs.append(("at-b", st, 0, delta, ordered))
            jobs.append(("at-a", st, 0, delta, ordered))
        # ---- pairs
        jobs.append(("pair-reject", ("@+1d", "@-1d"), 0, None, None))
        jobs.append(("pair-reject", ("20200102T000000", "20200101T000000"), 0, None, None))
        jobs.append(("pair-reject", ("@+1d", "20200101T000000"), 0, None, None))
        jobs.append(("pair-reject", ("20200101T000000", "@-1d"), 0, None, None))
        jobs.append(("pair-ok", ("20200101T000000", "20200101T000000"), 0, None, None))
        # '@' relative to a bound that is itself relative to program start (documented: the '@' bound is evaluated second)
        for a_, b_, da, db in (("@-1h", "-1d", -3600, -86400), ("@-2d3h", "+0s", -(2 * 86400 + 3 * 3600), 0), ("-1w", "@+1d", -604800, 86400)):
            jobs.append(("at-now", (a_, b_), 0, (da, db), None))
        # the help text's own example with two signed groups: if it is accepted it must mean 1 day + 11 hours
        jobs.append(("at-b", "+1d+11h", 0, 86400 + 11 * 3600, False))
        common.log("[C14] %d argument cases" % len(jobs))

        X = "20200301T120000"
        X_epoch = gen.days_from_civil(2020, 3, 1) * 86400 + 12 * 3600

        def tzarg(t):
            return "-t=" + off_str(t, "hh:mm")

        def one(job):
            kind, st, t, exp, flag = job
            base = ["--color", "never", "-s", tzarg(t)]
            if kind in ("abs", "epoch", "reject", "now"):
                args = base + ["--dt-after=" + st, "one.log"]
            elif kind == "at-b":
                args = base + ["--dt-after=" + X, "--dt-before=@" + st, "one.log"]
            elif kind == "at-a":
                args = base + ["--dt-after=@" + st, "--dt-before=" + X, "one.log"]
            else:
                args = base + ["--dt-after=" + st[0], "--dt-before=" + st[1], "one.log"]
            return job, args, common.run_s4(args, cwd=work)

        probes = []
        acc_by_spelling = {}
        for job, args, r in common.pmap(one, jobs):
            kind, st, t, exp, flag = job
            res.count()
            res.distinct((kind, str(st)))
            replay = {"engine": "E-CLI", "args": args, "files": {"one.log": common.b64(gen.text_log([(E * 1000, b"x")]))}}
            if r.timed_out or r.rc not in (0, 1, 2):
                res.violation({"kind": kind, "symptom": "crash"}, "%s: rc=%s" % (args, r.rc), replay)
                continue
            accepted = r.rc == 0 or (r.rc == 1 and b"Datetime filter" in r.err)
            if kind == "abs":
                acc_by_spelling.setdefault(spelling_of[(st, t)], []).append((accepted, st, args))
            sm = parse_summary(r.err)
            if kind in ("reject", "pair-reject"):
                if accepted or r.out:
                    shape = "other"
                    if isinstance(st, str) and re.search(r"[+-]\d+[wdhms]", st) and not re.fullmatch(r"@?[+-](\d+[wdhms])+", st):
                        shape = "relative-offset-with-garbage"
                    res.violation({"kind": kind, "symptom": "accepted", "shape": shape},
                                  "value %r should be rejected (non-zero exit, nothing printed) but the run was accepted: rc=%s, resolved -a=%s -b=%s" % (st, r.rc, sm["a"], sm["b"]), replay)
                continue
            if kind == "at-now":
                da, db = exp
                if not accepted or sm["a"] is None or sm["b"] is None or sm["now"] is None:
                    res.violation({"kind": kind, "symptom": "rejected"}, "-a %s -b %s (one bound relative to the other, the other relative to program start) was rejected: %r" % (st[0], st[1], r.err[-160:]), replay)
                else:
                    if st[0].startswith("@"):
                        ok = sm["b"] - sm["now"] == db and sm["a"] - sm["b"] == da
                    else:
                        ok = sm["a"] - sm["now"] == da and sm["b"] - sm["a"] == db
                    if not ok:
                        res.violation({"kind": kind, "symptom": "wrong-instant"}, "-a %s -b %s resolved to a=%s b=%s (program start %s)" % (st[0], st[1], sm["a"], sm["b"], sm["now"]), replay)
                continue
            if kind == "pair-ok":
                if not accepted:
                    res.violation({"kind": kind, "symptom": "rejected"}, "-a X -b X must be accepted", replay)
                continue
            if not accepted and kind in ("at-a", "at-b") and ((kind == "at-b" and exp < 0) or (kind == "at-a" and exp > 0)):
                continue       # after > before: rejection is the documented behaviour
            if not accepted:
                if flag:   # must-accept / documented order
                    res.violation({"kind": kind, "symptom": "rejected", "documented_spelling": True}, "documented value %r (tz %s) was rejected: %r" % (st, t, r.err[-160:]), replay)
                continue
            if kind in ("abs", "epoch"):
                got = sm["a"]
                if got is None or got != exp // 1000000:
                    feats = {"kind": kind, "symptom": "wrong-instant", "zone_in_value": kind == "abs" and (st[-1].isalpha() or re.search(r"[+-]\d\d(:?\d\d)?$", st) is not None)}
                    if kind == "epoch":
                        feats["tz_offset_nonzero"] = t != 0
                    res.violation(feats, "value %r with --tz-offset %s resolved to %s, expected %s (epoch seconds)" % (st, off_str(t, "hh:mm"), got, exp // 1000000), replay)
                elif exp % 1000000:
                    probes.append((st, t, exp))
            elif kind == "now":
                if sm["a"] is None or sm["now"] is None or sm["a"] - sm["now"] != exp:
                    res.violation({"kind": kind, "symptom": "wrong-instant", "tz_offset_nonzero": t != 0},
                                  "relative value %r: resolved -a minus 'Datetime Now' = %s s, expected %s s" % (st, None if sm["a"] is None or sm["now"] is None else sm["a"] - sm["now"], exp), replay)
            elif kind == "at-b":
                if exp < 0:
                    if accepted:   # b = X - D < a: must be rejected (after > before) unless D == 0
                        if exp != 0:
                            res.violation({"kind": kind, "symptom": "accepted", "shape": "after>before"}, "-a X -b @%s resolves before X but was accepted" % st, replay)
                    continue
                if sm["b"] != X_epoch + exp or sm["a"] != X_epoch:
                    res.violation({"kind": kind, "symptom": "wrong-instant"}, "-a X -b @%s: -b resolved to %s, expected X%+d = %s" % (st, sm["b"], exp, X_epoch + exp), replay)
            elif kind == "at-a":
                if exp > 0:
                    if accepted:
                        res.violation({"kind": kind, "symptom": "accepted", "shape": "after>before"}, "-a @%s -b X resolves after X but was accepted" % st, replay)
                    continue
                if sm["a"] != X_epoch + exp or sm["b"] != X_epoch:
                    res.violation({"kind": kind, "symptom": "wrong-instant"}, "-a @%s -b X: -a resolved to %s, expected X%+d = %s" % (st, sm["a"], exp, X_epoch + exp), replay)
        # ---- whether a spelling is accepted cannot depend on which (valid) date it spells
        for spelling, lst in sorted(acc_by_spelling.items(), key=str):
            if len({a for a, _, _ in lst}) > 1:
                ok = [st_ for a, st_, _ in lst if a][0]
                no = [(st_, ar) for a, st_, ar in lst if not a][0]
                res.violation({"kind": "abs", "symptom": "acceptance-depends-on-date"},
                              "spelling %s: value %r is accepted but %r (same notation, another valid date) is rejected" % (list(spelling), ok, no[0]),
                              {"engine": "E-CLI", "args": no[1], "files": {"one.log": common.b64(gen.text_log([(E * 1000, b"x")]))}})
        # ---- '@' relative to a bound that has a fraction of a second: -a X -b @+D equals -a X -b X+D (probe log, microseconds)
        Xus = X_epoch * 1000000
        atf = [("20200301T120000.500", "@+1s", Xus + 500000, Xus + 1500000),
               ("20200301T120000.123456", "@+1m", Xus + 123456, Xus + 60123456),
               ("2020-03-01T12:00:00.999", "@+1h1s", Xus + 999000, Xus + 3601999000),
               ("@-1s", "20200301T120000.250", Xus - 750000, Xus + 250000),
               ("@-2m", "2020-03-01 12:00:00.000001", Xus - 119999999, Xus + 1),
               ("20200301T120000.300", "@+0s", Xus + 300000, Xus + 300000),
               ("20200301T120000", "@+1s", Xus, Xus + 1000000)]

        def atprobe(c):
            a_s, b_s, a_us, b_us = c
            name = "atf%d.txt" % (abs(hash(c)) % 10 ** 9)
            ts = sorted({a_us - 1, a_us, a_us + 1, b_us - 1, b_us, b_us + 1})
            probe_file(work, ts, name)
            args = ["--color", "never", "-t=+00:00", "--dt-after=" + a_s, "--dt-before=" + b_s, name]
            return c, ts, args, common.run_s4(args, cwd=work)
        for (a_s, b_s, a_us, b_us), ts, args, r in common.pmap(atprobe, atf):
            res.count()
            res.distinct(("at-frac", a_s, b_s))
            want = [b"p%d" % t for t in ts if a_us <= t <= b_us]
            got = [ln.rsplit(b" ", 1)[-1] for ln in r.out.split(b"\n") if ln]
            if got != want or r.rc != 0:
                res.violation({"kind": "at-frac", "symptom": "rejected" if r.rc != 0 and not r.out else "wrong-subsecond"},
                              "-a %s -b %s: probe log printed %r (rc=%s), expected %r: the '@' bound is not the other bound plus the duration" % (a_s, b_s, got, r.rc, want),
                              {"engine": "E-CLI", "args": args, "files": {args[-1]: common.b64(open(os.path.join(work, args[-1]), "rb").read())}})
        # ---- sub-second part of absolute values, resolved by a probe log with messages at t-1us, t, t+1us
        def probe(p):
            st, t, exp = p
            name = "probe%d.txt" % (abs(hash((st, t))) % 10 ** 9)
            probe_file(work, [exp - 1, exp, exp + 1], name)
            args = ["--color", "never", tzarg(t), "--dt-after=" + st, name]
            return p, args, common.run_s4(args, cwd=work)
        for (st, t, exp), args, r in common.pmap(probe, probes):
            res.count()
            want = [b"p%d" % exp, b"p%d" % (exp + 1)]
            got = [ln.rsplit(b" ", 1)[-1] for ln in r.out.split(b"\n") if ln]
            if got != want:
                res.violation({"kind": "abs", "symptom": "wrong-subsecond"}, "value %r: probe log shows the bound is not at the written fraction (printed %r, expected %r)" % (st, got, want),
                              {"engine": "E-CLI", "args": args})
        res.sample({"kind": "abs", "value": "2020-02-29T23:59:58.123456 -03:30", "tz": "+05:30"})
        res.sample({"kind": "now", "value": "-7d12h100s"})
        res.sample({"kind": "at-b", "args": ["--dt-after=" + X, "--dt-before=@+1w12h"]})
        res.coverage["rule"] = ("every documented absolute shape x fraction {none,3,6 digits} x zone spelling {none,+hhmm,+hh:mm,+hh,names} x spacing x --tz-offset; bare dates; +epoch; "
                                "every ordered sequence of distinct w/d/h/m/s units with multi-digit counts x sign, relative to program start and ('@') to the other bound on either side; "
                                "ambiguous abbreviations, near-miss strings, mutually relative bounds and after>before must be rejected. Observation: resolved bounds in --summary (seconds) plus a "
                                "microsecond probe log. distinct_nontrivial = distinct (kind, value)")
    finally:
        shutil.rmtree(work, ignore_errors=True)
    res.assumptions += ["spellings the help text does not show (e.g. a space before a numeric zone in the compact form) may be rejected; if accepted they must resolve correctly",
                        "'Datetime Now' in --summary is the program-start instant used for relative forms"]
    return res.finish()


def replay(path, build=True):
    import json
    import base64
    if build:
        common.build_real()
    r = json.load(open(path))["replay"]
    work = common.scratch_dir(PROP + "r")
    try:
        for fn, b in r.get("files", {}).items():
            common.write_file(os.path.join(work, fn), base64.b64decode(b))
        x = common.run_s4(r["args"], cwd=work)
        common.log("rc=%s stdout=%r\nsummary: %s\nstderr tail: %r" % (x.rc, x.out[:200], parse_summary(x.err), x.err[-200:]))
        common.log("(re-run `./check C14` for the verdict; this replays the single invocation)")
        return common.EXIT_OK
    finally:
        shutil.rmtree(work, ignore_errors=True)
