"""C04 — timestamps are interpreted as the instant they denote. Engine: E-CLI driven by templates harvested from the
project's own documented examples (field positions located with the pattern's regex via `seqx c04-spans`;
the oracle is independent civil-calendar arithmetic)."""
import json
import os
import re
import shutil
import subprocess

import common
import gen

PROP = "C04"
DTFMT = "%Y%m%dT%H%M%S%.9f"
OUT_RE = re.compile(rb"^(\d{8}T\d{6}\.\d{9}):(.*)$")
TUPLE_RE = re.compile(r'\(\s*(\d+)\s*,\s*(\d+)\s*,\s*\(\s*(O_\w+)\s*,\s*(-?\d+|YD)\s*,\s*(\d+)\s*,\s*(\d+)\s*,\s*(\d+)\s*,\s*(\d+)\s*,\s*(\d+)\s*,\s*(\d+)\s*\)\s*,\s*(r#".*?"#|r"[^"]*"|"(?:[^"\\]|\\.)*")\s*\)', re.S)
MONTHS = ["jan", "feb", "mar", "apr", "may", "jun", "jul", "aug", "sep", "oct", "nov", "dec"]
MONTHS_LONG = ["january", "february", "march", "april", "may", "june", "july", "august", "september", "october", "november", "december"]
WDAYS = ["mon", "tue", "wed", "thu", "fri", "sat", "sun"]
WDAYS_LONG = ["monday", "tuesday", "wednesday", "thursday", "friday", "saturday", "sunday"]


def rust_unescape(lit):
    if lit.startswith("r"):
        return lit[lit.index('"') + 1:lit.rindex('"')]     # raw string: no escapes
    s = lit[1:-1]
    out, i = "", 0
    while i < len(s):
        c = s[i]
        if c != "\\":
            out += c
            i += 1
            continue
        n = s[i + 1]
        if n == "n":
            out += "\n"; i += 2
        elif n == "t":
            out += "\t"; i += 2
        elif n == "r":
            out += "\r"; i += 2
        elif n == "0":
            out += "\0"; i += 2
        elif n == "x":
            out += chr(int(s[i + 2:i + 4], 16)); i += 4
        elif n == "u":
            j = s.index("}", i)
            out += chr(int(s[i + 3:j], 16)); i = j + 1
        else:
            out += n; i += 2
    return out


YD_YEAR = 2021      # year-less documented examples: the file's modification time is placed in this year


def harvest(line_nums=None):
    """-> (offset constants, [ {entry, begin, end, tz, ymdhmsn, line} ]); `line_nums`: the source line of each built-in
    pattern (from the library itself), used to align source blocks with pattern indexes"""
    src = open(os.path.join(common.REPO, "src", "data", "datetime.rs"), encoding="utf-8", errors="replace").read()
    consts = {}
    for m in re.finditer(r"const (O_\w+): fos = ([^;]+);", src):
        expr = m.group(2).strip()
        if "max_value" in expr or "MAX" in expr:
            consts[m.group(1)] = None       # "local": the fallback zone
            continue
        if re.fullmatch(r"[-+*/() \d]+", expr):
            consts[m.group(1)] = int(eval(expr))
    start = src.index("pub const DATETIME_PARSE_DATAS: [")
    end = src.index("\n];", start)
    body = src[:end]
    # entries start at lines consisting of `    DTPD!(`
    pos = [m.start() for m in re.finditer(r"^    DTPD!\(\s*$", body, re.M) if m.start() > start]
    pos.append(len(body))
    blocks = []
    for k in range(len(pos) - 1):
        l0 = body.count("\n", 0, pos[k]) + 1
        l1 = body.count("\n", 0, pos[k + 1]) + 1
        blocks.append((l0, l1, body[pos[k]:pos[k + 1]]))
    if line_nums:
        aligned = []
        for ln in line_nums:
            cand = [b for b in blocks if b[0] <= ln < b[1]]
            aligned.append(cand[0][2] if cand else "")
        texts = aligned
    else:
        texts = [b[2] for b in blocks]
    examples = []
    for idx in range(len(texts)):
        text = texts[idx]
        # drop comment lines
        text = "\n".join(l for l in text.split("\n") if not l.strip().startswith("//"))
        for m in TUPLE_RE.finditer(text):
            b, e, tz = int(m.group(1)), int(m.group(2)), m.group(3)
            ymd = [YD_YEAR if m.group(4) == "YD" else int(m.group(4))] + [int(m.group(k)) for k in range(5, 11)]
            line = rust_unescape(m.group(11))
            first_line = line.split("\n")[0]
            if e > len(first_line.encode("utf-8")):
                continue        # the timestamp is not on the example's first line
            examples.append({"entry": idx, "begin": b, "end": e, "tz": tz, "t": ymd, "line": first_line, "yearless": m.group(4) == "YD"})
    return consts, examples, len(texts)


def epoch_ns(t, off_sec):
    y, mo, d, h, mi, s, ns = t
    return (gen.days_from_civil(y, mo, d) * 86400 + h * 3600 + mi * 60 + s - off_sec) * 10 ** 9 + ns


def key_ns(k):
    s = k.decode()
    return (gen.days_from_civil(int(s[0:4]), int(s[4:6]), int(s[6:8])) * 86400 + int(s[9:11]) * 3600 + int(s[11:13]) * 60 + int(s[13:15])) * 10 ** 9 + int(s[16:25])


def weekday(y, m, d):
    return (gen.days_from_civil(y, m, d) + 3) % 7     # 1970-01-01 was a Thursday; 0 = Monday


def run_file(work, name, lines, tz_arg, mtime):
    p = os.path.join(work, name)
    common.write_file(p, b"".join(l + b"\n" for l in lines))
    os.utime(p, (mtime, mtime))
    r = common.run_s4(["--color", "never", "-u", "-d", DTFMT, "-t=" + tz_arg, name], cwd=work, timeout=120)
    os.remove(p)
    return r


def parse_out(out):
    """-> list of (epoch_ns, text) per printed line"""
    res = []
    for ln in out.split(b"\n"):
        if not ln:
            continue
        m = OUT_RE.match(ln)
        if not m:
            res.append((None, ln))
        else:
            res.append((key_ns(m.group(1)), m.group(2)))
    return res


# ---- templates ------------------------------------------------------------------------------------------

def style_of(name, text):
    t = text
    if name == "month":
        if t.isdigit():
            return "num2" if len(t) == 2 else "num1"
        low = t.lower()
        form = "long" if low in MONTHS_LONG and len(low) > 3 else "abbr"
        case = "upper" if t.isupper() else ("lower" if t.islower() else "title")
        return form + "-" + case
    if name in ("day", "hour", "minute", "second"):
        if len(t) == 2 and t[0] == " ":
            return "space2"
        return "num2" if len(t) == 2 else "num1"
    if name == "year":
        return "num4" if len(t) == 4 else "num2"
    if name == "fractional":
        return "frac"
    if name == "tz":
        if re.fullmatch(r"[+-]\d\d:\d\d", t):
            return "tz-hh:mm"
        if re.fullmatch(r"[+-]\d{4}", t):
            return "tz-hhmm"
        if re.fullmatch(r"[+-]\d\d", t):
            return "tz-hh"
        return "tz-name"
    if name in ("dayIgnore", "dayignore"):
        low = t.lower()
        form = "long" if low in WDAYS_LONG else "abbr"
        case = "upper" if t.isupper() else ("lower" if t.islower() else "title")
        return "wday-" + form + "-" + case
    return "other"


def cased(s, case):
    return s.upper() if case == "upper" else (s.lower() if case == "lower" else s.title())


def render(name, style, t, off_min, frac_digits):
    y, mo, d, h, mi, s, ns = t
    if name == "year":
        return "%04d" % y if style == "num4" else "%02d" % (y % 100)
    if name == "month":
        if style == "num2":
            return "%02d" % mo
        if style == "num1":
            return "%d" % mo
        form, case = style.split("-")
        return cased((MONTHS_LONG if form == "long" else MONTHS)[mo - 1], case)
    if name in ("day", "hour", "minute", "second"):
        v = {"day": d, "hour": h, "minute": mi, "second": s}[name]
        return "%02d" % v if style == "num2" else ("%2d" % v if style == "space2" else "%d" % v)
    if name == "fractional":
        return ("%09d" % ns)[:frac_digits]
    if name == "tz":
        sign = "+" if off_min >= 0 else "-"
        a = abs(off_min)
        if style == "tz-hh:mm":
            return "%s%02d:%02d" % (sign, a // 60, a % 60)
        if style == "tz-hhmm":
            return "%s%02d%02d" % (sign, a // 60, a % 60)
        if style == "tz-hh":
            return "%s%02d" % (sign, a // 60)
        return None
    if name in ("dayIgnore", "dayignore"):
        _, form, case = style.split("-")
        return cased((WDAYS_LONG if form == "long" else WDAYS)[weekday(y, mo, d)], case)
    return None


def instantiate(ex, groups, t, off_min, frac_digits, tzname=None):
    """render a new line from the example by replacing the located fields; returns (line, None) or (None, reason)"""
    line = ex["line"].encode("utf-8")
    parts = sorted(groups, key=lambda g: g[1])
    out, pos = b"", 0
    for name, a, b in parts:
        if a < pos:
            return None, "overlapping groups"
        text = line[a:b].decode("utf-8", "replace")
        st = style_of(name, text)
        if name == "tz" and st == "tz-name" and tzname is not None:
            new = tzname
        elif st == "other" or (name == "tz" and st == "tz-name"):
            new = text
        else:
            new = render(name, st, t, off_min, frac_digits if name == "fractional" else None)
            if new is None:
                return None, "unrenderable " + name
        out += line[pos:a] + new.encode()
        pos = b
    out += line[pos:]
    return out, None


def run(tier, seed, build=True):
    if build:
        common.build_harness(("seqx",))
        common.build_real()
    res = common.Result(PROP, tier, "exploration", seed)
    work = common.scratch_dir(PROP)
    try:
        dump = json.loads(subprocess.run([common.SEQX, "c04-dump"], capture_output=True, text=True).stdout)
        consts, examples, nentries = harvest([d["line_num"] for d in dump])
        if nentries < 150 or len(examples) < 700:
            raise common.MachineryError("harvested only %d entries / %d examples from datetime.rs" % (nentries, len(examples)))
        common.log("[C04] harvested %d documented examples of %d notations" % (len(examples), nentries))
        has_year = {d["index"]: "year?: true" in d["dtfs"] for d in dump}
        # Unix-epoch notations denote an instant counted in UTC whatever the fallback zone is (the documented tuples say
        # "local" for them: they were written down on a UTC machine)
        is_epoch = {d["index"]: 'pattern: "%s' in d["dtfs"] for d in dump}
        # ---- stage A: every documented example, end to end, under two fallback zones
        all_in = os.path.join(work, "spans_all.json")
        json.dump([[ex["entry"], ex["line"]] for ex in examples], open(all_in, "w"))
        all_sp = json.loads(subprocess.run([common.SEQX, "c04-spans", all_in], capture_output=True, text=True).stdout)
        import c14
        # the project's own abbreviation table (used only to ACCEPT a zone-aware reading of a text whose documented tuple ignores the zone)
        table = {}
        srcdt = open(os.path.join(common.REPO, "src", "data", "datetime.rs"), errors="replace").read()
        for mm in re.finditer(r'"([A-Z]{1,5})"\s*=>\s*"([+-])(\d\d):(\d\d)"', srcdt):
            table[mm.group(1)] = (1 if mm.group(2) == "+" else -1) * (int(mm.group(3)) * 3600 + int(mm.group(4)) * 60)
        jobs = []
        skipped_named = 0
        for i, ex in enumerate(examples):
            if ex["tz"] not in consts:
                continue
            # which zone does the TEXT denote? (the documented tuple's zone is only used when the text has none)
            tzg = [g for g in all_sp[i]["groups"] if g[0] == "tz"]
            text_off = "none"
            if tzg:
                ttxt = ex["line"].encode("utf-8")[tzg[0][1]:tzg[0][2]].decode("utf-8", "replace").strip()
                m = re.fullmatch(r"([+-])(\d\d):?(\d\d)?", ttxt)
                if m:
                    text_off = (1 if m.group(1) == "+" else -1) * (int(m.group(2)) * 3600 + int(m.group(3) or 0) * 60)
                elif ttxt.upper() in c14.ZONES:
                    text_off = c14.ZONES[ttxt.upper()] * 60
                elif ttxt:
                    skipped_named += 1
                    continue     # an abbreviation this check has no independent offset for
            for tzarg, tzsec in (("+00:00", 0), ("-03:30", -12600)):
                if text_off != "none":
                    off = text_off
                    if tzarg != "+00:00":
                        continue      # explicit zone in the text: one run suffices
                elif is_epoch.get(ex["entry"]):
                    off = 0
                else:
                    off = consts[ex["tz"]]
                    if off is None:
                        off = tzsec
                    elif tzarg != "+00:00":
                        continue
                # the documented tuple belongs to ONE pattern; if that pattern does not capture a zone although the text carries one
                # right after the matched span, a more specific pattern may (rightly) honour it end to end: accept that reading too
                alts = [epoch_ns(ex["t"], off)]
                rest = ex["line"].encode("utf-8")[ex["end"]:].decode("utf-8", "replace")
                m2 = re.match(r"\s*([+-])(\d\d):?(\d\d)?(?!\d)", rest)
                if m2 and text_off == "none":
                    alts.append(epoch_ns(ex["t"], (1 if m2.group(1) == "+" else -1) * (int(m2.group(2)) * 3600 + int(m2.group(3) or 0) * 60)))
                m3 = re.match(r"\s*([A-Za-z]{1,5})\b", rest)
                if m3 and text_off == "none":
                    nm = m3.group(1).upper()
                    if nm in c14.ZONES:
                        alts.append(epoch_ns(ex["t"], c14.ZONES[nm] * 60))
                    elif nm in table:
                        alts.append(epoch_ns(ex["t"], table[nm]))
                jobs.append((i, ex, tzarg, alts))
        res.coverage["examples_skipped_named_zone_without_independent_offset"] = skipped_named

        def stage_a(job):
            i, ex, tzarg, exp = job
            y = ex["t"][0]
            mtime = gen.days_from_civil(y, 6, 30) * 86400
            r = run_file(work, "a%d_%s.log" % (i, tzarg.replace(":", "").replace("+", "p").replace("-", "m")), [ex["line"].encode("utf-8")], tzarg, mtime)
            return job, r
        for (i, ex, tzarg, exp), r in common.pmap(stage_a, jobs):
            res.count()
            res.distinct(("example", i))
            got = parse_out(r.out)
            rep = {"engine": "E-CLI", "args": ["--color", "never", "-u", "-d", DTFMT, "-t=" + tzarg, "x.log"], "files": {"x.log": common.b64(ex["line"].encode("utf-8") + b"\n")},
                   "mtime": gen.days_from_civil(ex["t"][0], 6, 30) * 86400}
            feats = {"stage": "documented-example", "entry": ex["entry"], "epoch_notation": bool(is_epoch.get(ex["entry"])), "fallback_zone_used": consts[ex["tz"]] is None, "pattern_has_year": has_year.get(ex["entry"], True)}
            if r.rc not in (0, 1) or r.timed_out:
                res.violation(dict(feats, symptom="crash"), "documented example of entry %d: rc=%s" % (ex["entry"], r.rc), rep)
            elif not got:
                res.violation(dict(feats, symptom="not-recognised"), "documented example of entry %d is not recognised at all: %r" % (ex["entry"], ex["line"][:80]), rep)
            elif got[0][0] not in exp:
                exp = exp[0]
                delta = None if got[0][0] is None else (got[0][0] - exp) / 1e9
                res.violation(dict(feats, symptom="wrong-instant", off_by_whole_years=delta is not None and abs(delta) > 300 * 86400),
                              "documented example of entry %d, -t %s: attributed instant differs from the documented one by %s s: %r" % (ex["entry"], tzarg, delta, ex["line"][:80]), rep)
        # ---- stage B: field-wise sweeps on templates (first example of each notation that has a 4-digit year)
        firsts = {}
        for i, ex in enumerate(examples):
            if ex["entry"] not in firsts and has_year.get(ex["entry"]) and ex["tz"] in consts and 1970 <= ex["t"][0] <= 2099:
                firsts[ex["entry"]] = (i, ex)
        spans_in = os.path.join(work, "spans_in.json")
        order = sorted(firsts)
        json.dump([[e, firsts[e][1]["line"]] for e in order], open(spans_in, "w"))
        sp = json.loads(subprocess.run([common.SEQX, "c04-spans", spans_in], capture_output=True, text=True).stdout)
        templates = []
        for e, s_ in zip(order, sp):
            groups = [(g[0], g[1], g[2]) for g in s_["groups"]]
            names = {g[0] for g in groups}
            if not {"year", "month", "day", "hour", "minute", "second"} <= names:
                continue       # epoch / uptime notations and patterns without all fields are covered by stage A only
            templates.append((e, firsts[e][1], groups))
        common.log("[C04] %d sweep templates" % len(templates))
        pivots_date = [(2000, 2, 29), (1999, 12, 31), (2023, 1, 1)]
        dates = [(1970, 1, 2), (1972, 2, 29), (1999, 12, 31), (2000, 1, 1), (2000, 2, 28), (2000, 2, 29), (2000, 3, 1), (2038, 1, 19), (2096, 2, 29), (2099, 12, 30)]
        for mo in range(1, 13):
            dates.append((2021, mo, [31, 28, 31, 30, 31, 30, 31, 31, 30, 31, 30, 31][mo - 1]))
            dates.append((2024, mo, 1))
        if tier == "thorough":
            for y in range(1970, 2100, 3):
                for mo, d in ((1, 31), (2, 28), (7, 9), (12, 31)):
                    dates.append((y, mo, d))
        times = [(0, 0, 0), (0, 0, 1), (9, 5, 7), (12, 0, 0), (13, 59, 59), (23, 59, 59), (23, 0, 0), (1, 1, 1)]
        if tier == "thorough":
            times += [(h, (h * 7) % 60, (h * 13) % 60) for h in range(24)]
        offsets = [0, 60, -60, 330, -210, 345, 840, -720, 570, -570]
        fracs = [(1, 100000000), (2, 120000000), (3, 123000000), (4, 123400000), (5, 123450000), (6, 123456000), (7, 123456700), (8, 123456780), (9, 123456789)]

        def sweep_cases(e, ex, groups):
            names = {g[0] for g in groups}
            tzg = [g for g in groups if g[0] == "tz"]
            tz_text = ex["line"].encode("utf-8")[tzg[0][1]:tzg[0][2]].decode("utf-8", "replace") if tzg else None
            tz_numeric = bool(tzg) and style_of("tz", tz_text) != "tz-name"
            base_off = consts[ex["tz"]]
            fg = [g for g in groups if g[0] == "fractional"]
            fdig = (fg[0][2] - fg[0][1]) if fg else 0
            base_ns = ex["t"][6]
            cases = []
            bt = tuple(ex["t"][:6])
            yg = [g for g in groups if g[0] == "year"]
            two_digit_year = bool(yg) and (yg[0][2] - yg[0][1]) == 2
            for (y, mo, d) in dates:
                if two_digit_year and not (1970 <= y <= 2068):
                    continue        # a 2-digit year cannot denote it
                cases.append(((y, mo, d, bt[3], bt[4], bt[5], base_ns), None))
            for (h, mi, s) in times:
                for (y, mo, d) in pivots_date:
                    cases.append(((y, mo, d, h, mi, s, base_ns), None))
            if tz_numeric:
                for om in offsets:
                    st = style_of("tz", tz_text)
                    if st == "tz-hh" and om % 60:
                        continue
                    for (y, mo, d) in pivots_date[:2]:
                        cases.append(((y, mo, d, 23, 30, 0, base_ns), om))
            if fg:
                for n, ns in fracs:
                    cases.append(((2000, 2, 29, 12, 0, 1, ns), ("frac", n)))
            return cases, base_off, fdig, tz_numeric

        def stage_b(tp):
            e, ex, groups = tp
            cases, base_off, fdig, tz_numeric = sweep_cases(e, ex, groups)
            out = []
            for tzarg, tzsec in (("+00:00", 0), ("+05:45", 20700)):
                lines, exps = [], []
                for t, var in cases:
                    off_min = None
                    nd = fdig
                    if isinstance(var, tuple):
                        nd = var[1]
                    elif var is not None:
                        off_min = var
                    if base_off is None:
                        eff = tzsec if off_min is None else off_min * 60
                    else:
                        eff = base_off if off_min is None else off_min * 60
                    ln, why = instantiate(ex, groups, t, (eff // 60) if (off_min is not None or base_off is not None) else 0, nd)
                    if ln is None:
                        continue
                    if off_min is None and base_off is not None and tz_numeric:
                        # keep the example's own zone text: instantiate() re-renders numeric zones, so pass the base offset
                        pass
                    lines.append(ln)
                    exps.append((epoch_ns(t, eff), t, var))
                if base_off is not None and tzarg != "+00:00":
                    continue
                main_idx = [k for k, x in enumerate(exps) if not isinstance(x[2], tuple)]
                r = run_file(work, "b%d_%s.log" % (e, tzarg[1:3]), [lines[k] for k in main_idx], tzarg, gen.days_from_civil(2099, 12, 31) * 86400)
                out.append((tzarg, [lines[k] for k in main_idx], [exps[k] for k in main_idx], r))
                # a log written with another fraction width: every line of the file has that width
                fidx = [k for k, x in enumerate(exps) if isinstance(x[2], tuple)]
                if fidx:
                    fin = os.path.join(work, "fr%d_%s.json" % (e, tzarg[1:3]))
                    json.dump([[e, lines[k].decode("utf-8", "replace")] for k in fidx], open(fin, "w"))
                    fsp = json.loads(subprocess.run([common.SEQX, "c04-spans", fin], capture_output=True, text=True).stdout)
                    os.remove(fin)
                    inside = set()
                    want = {g[0] for g in groups}
                    for k, sp_ in zip(fidx, fsp):
                        gg = {g[0]: g[2] - g[1] for g in sp_["groups"]}
                        if want <= set(gg) and gg.get("fractional") == exps[k][2][1]:
                            inside.add(k)        # the notation's own pattern takes this width: the variant is inside the notation
                else:
                    inside = set()
                for k, x in enumerate(exps):
                    if isinstance(x[2], tuple) and k in inside:
                        rr = run_file(work, "b%d_%s_f%d.log" % (e, tzarg[1:3], x[2][1]), [lines[k], lines[k]], tzarg, gen.days_from_civil(2099, 12, 31) * 86400)
                        out.append((tzarg, [lines[k]], [x], rr))
            return tp, out
        for (e, ex, groups), outs in common.pmap(stage_b, templates):
            for tzarg, lines, exps, r in outs:
                got = parse_out(r.out)
                bytext = {}
                for ns, text in got:
                    bytext.setdefault(text, ns)
                for ln, (exp, t, var) in zip(lines, exps):
                    res.count()
                    kind = "date/time" if var is None else ("fraction-width" if isinstance(var, tuple) else "offset")
                    feats = {"stage": "sweep", "entry": e, "varied": kind}
                    rep = {"engine": "E-CLI", "args": ["--color", "never", "-u", "-d", DTFMT, "-t=" + tzarg, "x.log"], "files": {"x.log": common.b64(ln + b"\n")}, "mtime": 4102358400}
                    if ln not in bytext:
                        # not recognised as a message head: outside the notation (e.g. a fraction width the pattern does not take) unless it is a plain date/time change
                        if kind == "date/time":
                            res.violation(dict(feats, symptom="not-recognised"), "entry %d: %r (same notation, other date/time) is not recognised" % (e, ln[:90]), rep)
                        continue
                    if bytext[ln] != exp:
                        d = (bytext[ln] - exp) / 1e9
                        if isinstance(var, tuple):
                            feats["fraction_digits"] = var[1]
                        res.violation(dict(feats, symptom="wrong-instant"), "entry %d: %r attributed %+.9f s away from the instant it denotes (-t %s)" % (e, ln[:90], d, tzarg), rep)
            res.distinct(("template", e))
        # ---- stage D: a message whose TEXT carries a second date in another documented notation. The file uses one notation
        # (at line start, with a written UTC offset) throughout; the first message embeds every documented example line in turn.
        # Every message must still be attributed the instant of its own leading timestamp ("does an earlier, more general pattern
        # steal the match?"). Files are > 8096 bytes so that block-zero analysis votes over several messages.
        leads = []
        for e, ex, groups in templates:
            tzg = [g for g in groups if g[0] == "tz"]
            if ex["begin"] != 0 or not tzg or consts.get(ex["tz"]) is None:
                continue
            if style_of("tz", ex["line"].encode("utf-8")[tzg[0][1]:tzg[0][2]].decode("utf-8", "replace")) == "tz-name":
                continue
            if any(g[0] == "fractional" for g in groups):
                continue
            leads.append((e, ex, groups))
        leads = leads[:: max(1, len(leads) // (3 if tier == "quick" else 8))][: (3 if tier == "quick" else 8)]
        emb_seen = set()
        embedded = []
        for i, ex in enumerate(examples):
            if tier == "quick" and ex["entry"] in emb_seen:
                continue
            emb_seen.add(ex["entry"])
            embedded.append((i, ex))
        djobs = [(lead, emb, nl) for lead in leads for emb in embedded if emb[1]["entry"] != lead[0] for nl in (80, 3)]

        def stage_d(job):
            (le, lex, lgroups), (ei, eex), nl = job
            lines, exps = [], []
            for k in range(nl):
                t = (2024, 3, 5, 10, k // 60, k % 60, 0)
                stamp, _why = instantiate(lex, lgroups, t, 300, None)      # +05:00: also expressible by notations that write whole hours only
                if stamp is None:
                    return job, None, None, None
                stamp = stamp[: lex["end"] + (len(stamp) - len(lex["line"].encode("utf-8")))] if False else stamp
                lines.append(stamp)
                exps.append(epoch_ns(t, 300 * 60))
            # keep only the lead example's timestamp part as the line head
            head_len = None
            out_lines = []
            for k, ln in enumerate(lines):
                # the example's own text after its timestamp is replaced by ours
                endpos = lex["end"] + (len(ln) - len(lex["line"].encode("utf-8")))
                head = ln[:endpos]
                if k == 0:
                    body = b" host app[1]: noted " + eex["line"].encode("utf-8")
                else:
                    body = b" host app[1]: ordinary message number %04d " % k + b"." * 60
                out_lines.append(head + body)
            r = run_file(work, "d%d_%d_%d.log" % (le, ei, nl), out_lines, "-03:30", gen.days_from_civil(2024, 6, 30) * 86400)
            return job, out_lines, exps, r
        nD = 0
        for job, out_lines, exps, r in common.pmap(stage_d, djobs):
            (le, lex, lgroups), (ei, eex), nl = job
            if out_lines is None:
                continue
            nD += 1
            res.count()
            res.distinct(("embedded", le, eex["entry"], nl))
            got = parse_out(r.out)
            feats = {"stage": "embedded-second-date", "lead_entry": le, "embedded_entry": eex["entry"], "file_smaller_than_8096": sum(len(l) + 1 for l in out_lines) < 8096}
            rep = {"engine": "E-CLI", "args": ["--color", "never", "-u", "-d", DTFMT, "-t=-03:30", "x.log"], "files": {"x.log": common.b64(b"".join(l + b"\n" for l in out_lines))},
                   "mtime": gen.days_from_civil(2024, 6, 30) * 86400}
            if r.rc not in (0, 1) or r.timed_out:
                res.violation(dict(feats, symptom="crash"), "lead entry %d with an embedded example of entry %d: rc=%s" % (le, eex["entry"], r.rc), rep)
                continue
            stamped = [(ns, txt) for ns, txt in got if ns is not None]
            if len(stamped) != len(out_lines) or [t for _, t in stamped] != out_lines:
                p_ = os.path.join(work, "dy%d_%d_%d.log" % (le, ei, nl))
                common.write_file(p_, b"".join(l + b"\n" for l in out_lines))
                rs_ = common.run_s4(["--color", "never", "-s", "-t=-03:30", os.path.basename(p_)], cwd=work, timeout=60)
                os.remove(p_)
                used = [int(x) for x in re.findall(rb"@\[(\d+)\] uses", rs_.err)]
                feats["pattern_in_use_listed_before_lead"] = bool(used) and min(used) < le
                res.violation(dict(feats, symptom="messages-not-separated", printed=min(len(stamped), 99)),
                              "file in notation of entry %d whose first message embeds %r: %d of %d lines printed as messages of their own" % (le, eex["line"][:60], len(stamped), len(out_lines)), rep)
                continue
            wrong = [k for k, ((ns, _), e_) in enumerate(zip(stamped, exps)) if ns != e_]
            if wrong or len(stamped) != len(out_lines):
                # which built-in pattern did the file end up with? (the summary names it)
                p_ = os.path.join(work, "dx%d_%d_%d.log" % (le, ei, nl))
                common.write_file(p_, b"".join(l + b"\n" for l in out_lines))
                rs_ = common.run_s4(["--color", "never", "-s", "-t=-03:30", os.path.basename(p_)], cwd=work, timeout=60)
                os.remove(p_)
                used = [int(x) for x in re.findall(rb"@\[(\d+)\] uses", rs_.err)]
                feats["pattern_in_use_listed_before_lead"] = bool(used) and min(used) < le
            if wrong:
                res.violation(dict(feats, symptom="wrong-instant", only_first_message=wrong == [0]),
                              "file in notation of entry %d whose first message embeds %r: message %d attributed %+.3f s away from its leading timestamp" % (
                                  le, eex["line"][:60], wrong[0], (stamped[wrong[0]][0] - exps[wrong[0]]) / 1e9), rep)
        res.coverage["embedded_second_date_files"] = nD
        # ---- stage E: position of the notation inside the line. For notations whose pattern may match away from the line start,
        # the documented example is shifted right by filler so that its timestamp ends exactly at the last byte of the pattern's
        # search window, one byte before it, and in the middle of the window.
        ranges = {d["index"]: tuple(d["range"]) for d in dump}
        unanchored = {d["index"]: not d["regex"].startswith("^") for d in dump}
        # minimal width of what each pattern requires AFTER its last captured field (a closing bracket, a non-digit, ...)
        import sre_parse
        tail_width = {}
        for d in dump:
            rx = d["regex"]
            k_ = rx.rfind("(?P<%s>" % d["cgn_last"])
            if k_ < 0:
                continue
            depth, j_ = 0, k_
            while j_ < len(rx):          # find the end of that group
                c_ = rx[j_]
                if c_ == "\\":
                    j_ += 2
                    continue
                if c_ == "[":            # skip a bracket expression (may hold parentheses and nested [:class:])
                    j_ += 1
                    while j_ < len(rx) and not (rx[j_] == "]" and rx[j_ - 1] != "[" and not rx[j_ - 2:j_ + 1].endswith(":]") ):
                        j_ += 2 if rx[j_] == "\\" else 1
                    j_ += 1
                    continue
                if c_ == "(":
                    depth += 1
                elif c_ == ")":
                    depth -= 1
                    if depth == 0:
                        break
                j_ += 1
            rem = rx[j_ + 1:]
            for a_, b_ in (("[:digit:]", "0-9"), ("[:^digit:]", "^0-9"), ("[:blank:]", " \\t"), ("[:alpha:]", "a-zA-Z"), ("[:alnum:]", "a-zA-Z0-9"), ("[:^alnum:]", "^a-zA-Z0-9"),
                           ("[:space:]", " \\t\\n"), ("[:upper:]", "A-Z"), ("[:lower:]", "a-z"), ("[:punct:]", "!-/")):
                rem = rem.replace(a_, b_)
            rem = rem.replace("[[^", "[^").replace("[[", "[").replace("]]", "]")
            try:
                tail_width[d["index"]] = sre_parse.parse(rem).getwidth()[0]
            except Exception:
                pass
        ejobs = []
        seen_e = set()
        for i, ex in enumerate(examples):
            e = ex["entry"]
            if e in seen_e or not unanchored.get(e) or not has_year.get(e) or ex["tz"] not in consts or is_epoch.get(e):
                continue
            if consts[ex["tz"]] is None:
                continue            # keep to examples whose zone is written (no fallback involved)
            seen_e.add(e)
            r_end = ranges[e][1]
            tail = tail_width.get(e)
            if tail is None:
                continue            # the text the pattern needs after its last field could not be measured
            for back0 in (0, 1, (r_end - ex["end"]) // 2):
                back = back0 + tail     # the whole match (last field + what the pattern requires after it) ends `back0` bytes before the window end
                k = r_end - ex["end"] - back
                if k < 2 or k > 4000:
                    continue
                ejobs.append((i, ex, k, back))
        if tier == "quick":
            ejobs = [j for j in ejobs if j[3] - tail_width.get(j[1]["entry"], 0) in (0, 1)]

        def stage_e(job):
            i, ex, k, back = job
            line = b"f" * (k - 1) + b" " + ex["line"].encode("utf-8")
            y = ex["t"][0]
            r = run_file(work, "e%d_%d.log" % (i, k), [line, line], "+00:00", gen.days_from_civil(y, 6, 30) * 86400)
            return job, line, r
        nE = 0
        for (i, ex, k, back), line, r in common.pmap(stage_e, ejobs):
            nE += 1
            res.count()
            res.distinct(("position", ex["entry"], back))
            got = parse_out(r.out)
            exp = epoch_ns(ex["t"], consts[ex["tz"]])
            feats = {"stage": "position-in-window", "entry": ex["entry"], "bytes_before_window_end": back}
            rep = {"engine": "E-CLI", "args": ["--color", "never", "-u", "-d", DTFMT, "-t=+00:00", "x.log"], "files": {"x.log": common.b64(line + b"\n" + line + b"\n")},
                   "mtime": gen.days_from_civil(ex["t"][0], 6, 30) * 86400}
            if not got or got[0][0] is None:
                continue        # not recognised at this position: other notations' windows may end earlier; only a WRONG instant is judged
            if got[0][0] != exp:
                res.violation(dict(feats, symptom="wrong-instant"), "entry %d: the documented example shifted so that its timestamp ends %d byte(s) before the end of the pattern's window [%d,%d) is attributed %+.3f s away" % (
                    ex["entry"], back, ranges[ex["entry"]][0], ranges[ex["entry"]][1], (got[0][0] - exp) / 1e9), rep)
        res.coverage["position_in_window_files"] = nE
        # ---- stage C: zone abbreviations in notations that carry a named zone: unambiguous ones denote their offset,
        # ambiguous ones (the project table's empty entries) are read in the --tz-offset zone
        ambiguous = c14.ambiguous_names()[: (6 if tier == "quick" else 40)]
        named = []
        for e, ex, groups in templates:
            tzg = [g for g in groups if g[0] == "tz"]
            if tzg and style_of("tz", ex["line"].encode("utf-8")[tzg[0][1]:tzg[0][2]].decode("utf-8", "replace")) == "tz-name":
                named.append((e, ex, groups))
        if tier == "quick":
            named = named[::3]

        def stage_c(tp):
            e, ex, groups = tp
            outs = []
            for tzarg, tzsec in (("-03:30", -12600), ("+05:45", 20700), ("-00:45", -2700)):
                lines, exps = [], []
                t = (2000, 2, 29, 23, 30, 1, ex["t"][6])
                for nm in ambiguous:
                    ln, _ = instantiate(ex, groups, t, 0, None if not [g for g in groups if g[0] == "fractional"] else [g for g in groups if g[0] == "fractional"][0][2] - [g for g in groups if g[0] == "fractional"][0][1], tzname=nm)
                    if ln:
                        lines.append(ln)
                        exps.append((epoch_ns(t, tzsec), nm, "ambiguous"))
                for nm, om in list(c14.ZONES.items())[:6]:
                    if nm == "Z":
                        continue
                    ln, _ = instantiate(ex, groups, t, 0, None if not [g for g in groups if g[0] == "fractional"] else [g for g in groups if g[0] == "fractional"][0][2] - [g for g in groups if g[0] == "fractional"][0][1], tzname=nm)
                    if ln:
                        lines.append(ln)
                        exps.append((epoch_ns(t, om * 60), nm, "unambiguous"))
                # one abbreviation per file (a log carries one zone)
                for ln, x in zip(lines, exps):
                    r = run_file(work, "c%d_%s_%s.log" % (e, tzarg[1:3] + tzarg[4:], x[1]), [ln, ln], tzarg, gen.days_from_civil(2099, 12, 31) * 86400)
                    outs.append((tzarg, ln, x, r))
            return tp, outs
        for (e, ex, groups), outs in common.pmap(stage_c, named):
            for tzarg, ln, (exp, nm, kind), r in outs:
                res.count()
                got = parse_out(r.out)
                if not got or got[0][1] != ln:
                    continue        # the notation does not take this abbreviation here
                if got[0][0] != exp:
                    res.violation({"stage": "zone-name", "entry": e, "abbreviation_kind": kind, "symptom": "wrong-instant"},
                                  "entry %d: %r with -t %s attributed %+.3f s away (%s abbreviation %s)" % (e, ln[:80], tzarg, (got[0][0] - exp) / 1e9, kind, nm),
                                  {"engine": "E-CLI", "args": ["--color", "never", "-u", "-d", DTFMT, "-t=" + tzarg, "x.log"], "files": {"x.log": common.b64(ln + b"\n")}, "mtime": 4102358400})
        res.coverage["named_zone_templates"] = len(named)
        res.sample({"stage": "documented-example", "line": examples[0]["line"], "expected_fields": examples[0]["t"], "zone": examples[0]["tz"]})
        res.sample({"stage": "sweep", "entry": templates[0][0], "template_from": templates[0][1]["line"], "fields_located": [g[0] for g in templates[0][2]]})
        res.coverage["templates"] = len(templates)
        res.coverage["documented_examples"] = len(examples)
        res.coverage["rule"] = ("stage A: each of the project's documented example lines (harvested from src/data/datetime.rs) alone in a file, through the real binary, under two fallback zones; expected instant "
                                "= the documented fields evaluated with independent civil arithmetic. Stage B: for the first example of every notation with all of year..second, the fields are located with the "
                                "notation's own regex and re-rendered in the example's style over star-shaped sweeps: dates (month ends, leap days, epoch edge, 2038, 2099), times of day, numeric UTC offsets "
                                "(incl. half/quarter hours, +14/-12), fraction widths 1..9; all lines of a template in one file. distinct_nontrivial = examples + templates")
    finally:
        shutil.rmtree(work, ignore_errors=True)
    res.assumptions += ["sweeps are star-shaped (one field family varied at a time), not the full cross product",
                        "a generated variant that the notation does not recognise at all (other than a pure date/time change) is treated as outside the notation"]
    return res.finish()


def replay(path, build=True):
    import base64
    if build:
        common.build_real()
    r = json.load(open(path))["replay"]
    work = common.scratch_dir(PROP + "r")
    try:
        for fn, b in r["files"].items():
            common.write_file(os.path.join(work, fn), base64.b64decode(b))
            os.utime(os.path.join(work, fn), (r["mtime"], r["mtime"]))
        x = common.run_s4(r["args"], cwd=work)
        common.log("rc=%s stdout=%r" % (x.rc, x.out[:400]))
        return common.EXIT_OK
    finally:
        shutil.rmtree(work, ignore_errors=True)
