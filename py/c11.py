"""C11 — year-less timestamps receive the right year. Engine: E-CLI over generated year-less logs."""
import itertools
import os
import shutil

import common
import gen

PROP = "C11"
MON = ["Jan", "Feb", "Mar", "Apr", "May", "Jun", "Jul", "Aug", "Sep", "Oct", "Nov", "Dec"]
DTFMT = "%Y%m%dT%H%M%S"


def epoch(y, m, d, h=0, mi=0, s=0):
    return gen.days_from_civil(y, m, d) * 86400 + h * 3600 + mi * 60 + s


def syslog_line(local_epoch, i):
    y, m, d, h, mi, s = gen.civil(local_epoch)
    return b"%s %2d %02d:%02d:%02d host prog[%d]: message number %d" % (MON[m - 1].encode(), d, h, mi, s, 100 + i, i)


def sequences(tier):
    """lists of LOCAL wall-clock epochs (non-decreasing) in which every year boundary is a visible wrap
    (the later stamp's month/day/time is earlier in the calendar than the previous one's)."""
    # the last two: one year minus 25.5 h / minus 30 h, i.e. a wrap that looks like stepping back by just over a day
    # 0: two messages with the same stamp
    gaps = [0, 1, 86400, 26 * 3600, 40 * 86400, 200 * 86400, 365 * 86400 - 25 * 3600 - 1800, 365 * 86400 - 30 * 3600]
    if tier == "quick":
        gaps = [0, 1, 26 * 3600, 40 * 86400, 200 * 86400, 365 * 86400 - 25 * 3600 - 1800]
    starts = [epoch(2018, 12, 30, 23, 59, 59), epoch(2018, 11, 15, 12, 0, 0), epoch(2019, 6, 1, 0, 0, 1), epoch(2018, 12, 31, 23, 59, 59)]
    # leap days that are NOT followed by a later year: 29 February as the first message after a wrap, in the middle, at the end
    leap = [[epoch(2019, 12, 31, 23, 59, 59), epoch(2020, 2, 29, 10, 0, 0), epoch(2020, 3, 1, 10, 0, 0)],
            [epoch(2019, 12, 31, 23, 59, 59), epoch(2020, 1, 15, 0, 0, 0), epoch(2020, 2, 29, 10, 0, 0)],
            [epoch(2020, 2, 28, 23, 0, 0), epoch(2020, 2, 29, 10, 0, 0), epoch(2020, 3, 1, 10, 0, 0)],
            [epoch(2019, 11, 1, 0, 0, 0), epoch(2019, 12, 31, 23, 59, 59), epoch(2020, 2, 29, 23, 59, 59)],
            [epoch(2020, 2, 29, 0, 0, 0)]]
    nmax = 3 if tier == "quick" else 4
    out = []
    for st in starts:
        for n in range(1, nmax + 1):
            # four-message logs: a subset of the gaps (the full product takes the thorough tier well over an hour)
            gaps_n = gaps if n <= 3 else [0, 86400, 40 * 86400, 365 * 86400 - 25 * 3600 - 1800]
            for gp in itertools.product(gaps_n, repeat=n - 1):
                seq = [st]
                for g in gp:
                    seq.append(seq[-1] + g)
                ok = True
                feb29 = False
                for a, b in zip(seq, seq[1:]):
                    ya, ma, da, ha, mia, sa = gen.civil(a)
                    yb, mb, db, hb, mib, sb = gen.civil(b)
                    if yb - ya > 1:
                        ok = False
                    if yb == ya + 1 and (mb, db, hb, mib, sb) >= (ma, da, ha, mia, sa):
                        ok = False      # a year passed without a visible wrap
                # Issue #245 (excluded from the verdict): a 29 February message that is followed, anywhere later in the
                # file, by a message of a later year
                for k, t in enumerate(seq):
                    if gen.civil(t)[1:3] == (2, 29) and any(gen.civil(u)[0] > gen.civil(t)[0] for u in seq[k + 1:]):
                        feb29 = True
                if ok and not feb29:
                    out.append(seq)
    out += leap
    # de-duplicate
    uniq = []
    seen = set()
    for s_ in out:
        if tuple(s_) not in seen:
            seen.add(tuple(s_))
            uniq.append(s_)
    return uniq


def wraps(seq):
    return sum(1 for a, b in zip(seq, seq[1:]) if gen.civil(b)[0] != gen.civil(a)[0])


def mixed_leg(res, tier, seqs, work):
    """a year-less log whose second line is stamped in ANOTHER notation (an application dumping an ISO-stamped line into
    syslog): block-zero analysis sees two notations and re-reads block zero with the one it keeps. Judged: (1) the streamed
    forms (.gz, .bz2) print byte for byte what the plain file prints at every block size; (2) in the plain output every
    year-less line after the foreign one carries the inferred date of the reference oracle."""
    pick = [q for q in seqs if len(q) >= 3 and wraps(q) >= 1]
    pick = pick[::3] if tier == "quick" else pick
    items = []
    for si, seq in enumerate(pick):
        for tzm, tzs_ in ((0, "+00:00"), (780, "+13:00")):
            items.append((si, seq, tzm, tzs_, os.path.join(work, "m%d" % len(items))))

    def one(it):
        si, seq, tzm, tzs_, d = it
        os.makedirs(d)
        y, m, dd, h, mi, s_ = gen.civil(seq[0])
        foreign = b"%04d-%02d-%02d %02d:%02d:%02d ERROR worker-3: traceback follows" % (y, m, dd, h, mi, s_)
        lines = [syslog_line(t, i) for i, t in enumerate(seq)]
        data = b"\n".join(lines[:1] + [foreign] + lines[1:]) + b"\n"
        mtime_utc = seq[-1] - tzm * 60
        common.write_file(os.path.join(d, "messages"), data)
        common.write_file(os.path.join(d, "messages.gz"), gen.gz(data, mtime=mtime_utc))
        common.write_file(os.path.join(d, "messages.bz2"), gen.bz(data))
        for f in ("messages", "messages.bz2"):
            os.utime(os.path.join(d, f), (mtime_utc, mtime_utc))
        outs = {}
        for bsz in (64, 128, 65536):
            for f in ("messages", "messages.gz", "messages.bz2"):
                args = ["--color", "never", "-u", "-d", DTFMT, "-t=" + tzs_, "--blocksz", str(bsz), f]
                outs[(bsz, f)] = (args, common.run_s4(args, cwd=d))
        shutil.rmtree(d, ignore_errors=True)
        return it, data, mtime_utc, outs

    for it, data, mtime_utc, outs in common.pmap(one, items):
        si, seq, tzm, tzs_, d = it
        res.distinct(("mixed", tuple(seq), tzm))
        true_utc = [t - tzm * 60 for t in seq]
        want = [b"%04d%02d%02dT%02d%02d%02d:" % gen.civil(t) + syslog_line(l, i) for i, (t, l) in enumerate(zip(true_utc, seq))][1:]
        for (bsz, f), (args, r) in outs.items():
            res.count()
            base = outs[(bsz, "messages")][1]
            bad = None
            if r.timed_out or r.rc not in (0, 1):
                bad = "crash"
            elif f == "messages":
                got = r.out.split(b"\n")[:-1]
                if got[-len(want):] != want:
                    bad = "wrong-year"
            elif r.out != base.out:
                bad = "streamed-differs-from-plain"
            if bad:
                res.violation({"kind": "mixed-notation", "container": f.rsplit(".", 1)[-1] if "." in f else "plain", "symptom": bad, "wraps": min(wraps(seq), 2), "tz_nonzero": tzm != 0},
                              "year-less log with one ISO-stamped second line, tz %s blocksz %d %s: printed %r (plain file: %r)" % (tzs_, bsz, f, r.out[:200], base.out[:200]),
                              {"engine": "E-CLI", "args": args, "container": "mixed:" + f, "data": common.b64(data), "mtime": mtime_utc})


def run(tier, seed, build=True):
    if build:
        common.build_real()
    res = common.Result(PROP, tier, "exploration", seed)
    work = common.scratch_dir(PROP)
    try:
        seqs = sequences(tier)
        tzs = [(-660, "-11:00"), (0, "+00:00"), (780, "+13:00")]
        conts = ["plain", "gz"] + (["tar", "bz2"] if tier == "thorough" else ["bz2"])
        bszs = [64, 65536] if tier == "quick" else [64, 128, 65536]
        common.log("[C11] %d year-less logs (%d with >=1 year wrap, %d with >=2)" % (len(seqs), sum(1 for s in seqs if wraps(s) >= 1), sum(1 for s in seqs if wraps(s) >= 2)))
        items = []
        for si, seq in enumerate(seqs):
            data = b"\n".join(syslog_line(t, i) for i, t in enumerate(seq)) + b"\n"
            # every 5th log starts with a line that carries no stamp (a header, the tail of a rotated line): it belongs to
            # no message and is not printed; the messages are dated as without it
            header = b"# log opened by logrotate\n" if si % 5 == 2 else b""
            last = seq[-1]
            ylast = gen.civil(last)[0]
            mt_local = [last, last + 1]
            if gen.civil(last + 30 * 86400)[0] == ylast:
                mt_local.append(last + 30 * 86400)
            mt_local.append(epoch(ylast, 12, 31, 23, 59, 59))
            if tier == "quick":
                mt_local = mt_local[:1] + mt_local[-1:]
            elif wraps(seq) == 0:
                mt_local = mt_local[:1]          # thorough: logs without a wrap get one mtime position
            for (tzm, tzs_), mtl in itertools.product(tzs, mt_local):
                if tier == "quick" and (si + tzm) % 2 and wraps(seq) == 0:
                    continue
                mtime_utc = mtl - tzm * 60          # the modification instant whose local year is ylast
                true_utc = [t - tzm * 60 for t in seq]
                for cont in conts:
                    if cont in ("tar", "bz2") and (si % 4):
                        continue                  # tar / bz2: every 4th log
                    d = os.path.join(work, "i%d" % len(items))
                    items.append((si, seq, header + data, tzm, tzs_, mtime_utc, true_utc, cont, d))
        common.log("[C11] %d file instances" % len(items))

        quick = tier == "quick"

        def prepare_and_run(it):
            si, seq, data, tzm, tzs_, mtime_utc, true_utc, cont, d = it
            os.makedirs(d)
            other = 1700000000       # a file-system mtime that must NOT be used when the container stores its own
            if cont == "plain":
                fn = "messages"
                common.write_file(os.path.join(d, fn), data)
                os.utime(os.path.join(d, fn), (mtime_utc, mtime_utc))
            elif cont == "gz":
                fn = "messages.gz"
                common.write_file(os.path.join(d, fn), gen.gz(data, mtime=mtime_utc))
                os.utime(os.path.join(d, fn), (other, other))
            elif cont == "tar":
                fn = "a.tar"
                common.write_file(os.path.join(d, fn), gen.tar([("var/log/messages", data)], mtime=mtime_utc))
                os.utime(os.path.join(d, fn), (other, other))
            else:
                fn = "messages.bz2"
                common.write_file(os.path.join(d, fn), gen.bz(data))
                os.utime(os.path.join(d, fn), (mtime_utc, mtime_utc))
            runs = []
            wins = [(None, None)]
            # windows around each wrap and on the first/last message
            cand = sorted(set([true_utc[0], true_utc[-1]] + [b for a, b in zip(true_utc, true_utc[1:]) if gen.civil(b)[0] != gen.civil(a)[0]]))
            # two-sided windows spanning several messages (both bounds given)
            if len(true_utc) >= 2:
                wins += [(true_utc[0], true_utc[-1]), (true_utc[0] + 1, true_utc[-1])]
                if len(true_utc) >= 3:
                    wins += [(true_utc[1], true_utc[-1]), (true_utc[0], true_utc[-2])]
            if quick:
                cand = cand[1:-1] if wraps(seq) else []       # quick tier: windows only on the wrap points
            for t in cand:
                wins += [(t, None), (None, t), (t, t), (None, t - 1)] if not quick else [(t, None), (None, t - 1), (t, t)]
            for bsz in bszs:
                if bsz != 65536 and not wraps(seq):
                    continue
                if bsz != 65536 and data.startswith(b"# log opened"):
                    continue      # a first stamped line outside block zero is C02/C12's known finding, judged there
                for (a, b) in (wins if bsz == 65536 else wins[:1]):
                    args = ["--color", "never", "-u", "-d", DTFMT, "-t=" + tzs_, "--blocksz", str(bsz)]
                    if a is not None:
                        y, m, dd, h, mi, s = gen.civil(a)
                        args += ["-a", "%04d%02d%02dT%02d%02d%02d+00:00" % (y, m, dd, h, mi, s)]
                    if b is not None:
                        y, m, dd, h, mi, s = gen.civil(b)
                        args += ["-b", "%04d%02d%02dT%02d%02d%02d+00:00" % (y, m, dd, h, mi, s)]
                    runs.append((a, b, bsz, args + [fn], common.run_s4(args + [fn], cwd=d)))
            shutil.rmtree(d, ignore_errors=True)
            return it, runs

        for it, runs in common.pmap(prepare_and_run, items):
            si, seq, data, tzm, tzs_, mtime_utc, true_utc, cont, d = it
            lines = [ln for ln in data.split(b"\n")[:-1] if not ln.startswith(b"# log opened")]
            res.distinct((tuple(seq), tzm, cont))
            for a, b, bsz, args, r in runs:
                res.count()
                sel = [(t, ln) for t, ln in zip(true_utc, lines) if (a is None or t >= a) and (b is None or t <= b)]
                exp = b"".join(b"%04d%02d%02dT%02d%02d%02d:" % gen.civil(t) + ln + b"\n" for t, ln in sel)
                if r.timed_out or r.rc not in (0, 1) or r.out != exp:
                    nwr = wraps(seq)
                    feats = {"container": cont, "wraps": min(nwr, 2), "windowed": a is not None or b is not None, "tz_nonzero": tzm != 0,
                             "first_gap_is_wrap": len(seq) > 1 and gen.civil(seq[1])[0] != gen.civil(seq[0])[0],
                             "feb29_directly_after_a_year_wrap": any(gen.civil(b_)[1:3] == (2, 29) and gen.civil(a_)[0] < gen.civil(b_)[0] for a_, b_ in zip(seq, seq[1:]))}
                    if r.timed_out or r.rc not in (0, 1):
                        feats["symptom"] = "crash"
                    else:
                        got = r.out.split(b"\n")[:-1]
                        if [g.split(b":", 1)[-1] for g in got] == [ln for _, ln in sel]:
                            # same messages, some with the wrong year/date
                            gy = [g[:4] for g in got]
                            ey = [b"%04d" % gen.civil(t)[0] for t, _ in sel]
                            feats["symptom"] = "wrong-year" if gy != ey else "wrong-date"
                        else:
                            feats["symptom"] = "selection-differs" if (a is not None or b is not None) else "messages-differ"
                    res.violation(feats, "year-less log local stamps %s tz %s mtime(utc) %d %s blocksz %d window [%s,%s]: printed %r expected %r" % (
                        [b"%s %d %02d:%02d:%02d" % (MON[gen.civil(t)[1] - 1].encode(), gen.civil(t)[2], gen.civil(t)[3], gen.civil(t)[4], gen.civil(t)[5]) for t in seq],
                        tzs_, mtime_utc, cont, bsz, a, b, r.out[:140], exp[:140]),
                        {"engine": "E-CLI", "args": args, "container": cont, "data": common.b64(data), "mtime": mtime_utc})
        mixed_leg(res, tier, seqs, work)
        res.sample({"local_stamps": ["Dec 30 23:59:59", "Dec 31 23:59:59", "Jan  1 01:59:59"], "tz": "+13:00", "mtime": "last message + 1 s", "container": "gz (header mtime)"})
        res.coverage["rule"] = ("year-less syslog logs of 1..3/5 messages from 4 start dates x every gap pattern over {1 s, 1 day, 26 h, 40 days, 200 days} keeping only logs whose year boundaries are visible "
                                "Dec->Jan wraps (0..3 wraps; 29-Feb cases excluded, Issue #245) x mtime positions within the last message's year x -t {-11:00,0,+13:00} x {plain, gz header mtime, tar member mtime, bz2} "
                                "x block sizes x windows on/around each wrap; oracle: backward year assignment from the mtime year, file order kept. distinct_nontrivial = distinct (log, tz, container)")
    finally:
        shutil.rmtree(work, ignore_errors=True)
    res.assumptions += ["gaps between consecutive messages are under one year and every year change is a visible wrap"]
    return res.finish()


def replay(path, build=True):
    import base64
    import json
    if build:
        common.build_real()
    r = json.load(open(path))["replay"]
    work = common.scratch_dir(PROP + "r")
    try:
        data = base64.b64decode(r["data"])
        fn = r["args"][-1]
        mt = r["mtime"]
        if r["container"].startswith("mixed:"):
            r["container"] = {"messages": "plain", "messages.gz": "gz", "messages.bz2": "bz2"}[r["container"][6:]]
        if r["container"] == "plain":
            common.write_file(os.path.join(work, fn), data)
            os.utime(os.path.join(work, fn), (mt, mt))
        elif r["container"] == "gz":
            common.write_file(os.path.join(work, fn), gen.gz(data, mtime=mt))
        elif r["container"] == "tar":
            common.write_file(os.path.join(work, fn), gen.tar([("var/log/messages", data)], mtime=mt))
        else:
            common.write_file(os.path.join(work, fn), gen.bz(data))
            os.utime(os.path.join(work, fn), (mt, mt))
        x = common.run_s4(r["args"], cwd=work)
        common.log("rc=%s\n%s" % (x.rc, x.out.decode("utf-8", "replace")))
        return common.EXIT_OK
    finally:
        shutil.rmtree(work, ignore_errors=True)
