"""C09 — journal files: every entry once, in journal order, fields intact. Engine: E-CLI vs `journalctl --file`."""
import json
import os
import shutil
import struct
import subprocess
import tarfile

import common
import gen
import oracle
import samples

PROP = "C09"
SEP = oracle.SEP
RENDERINGS = ["short", "short-precise", "short-iso", "short-iso-precise", "short-full", "short-monotonic", "short-unix", "verbose", "export", "cat"]


def jctl(path, fmt):
    p = subprocess.run(["journalctl", "--file", path, "-o", fmt, "--no-pager", "--utc"], stdout=subprocess.PIPE, stderr=subprocess.PIPE, env=dict(common.BASE_ENV, SYSTEMD_PAGER=""))
    if p.returncode != 0:
        raise common.MachineryError("journalctl failed on %s: %r" % (path, p.stderr[-200:]))
    return p.stdout


def ref_entries(path):
    out = []
    for ln in jctl(path, "json").split(b"\n"):
        if ln.strip():
            out.append(json.loads(ln))
    return out


def fmt_us(us):
    y, m, d, h, mi, s = gen.civil(us // 1000000)
    return "%04d%02d%02dT%02d%02d%02d.%06d" % (y, m, d, h, mi, s, us % 1000000)


def bound_text(us, style):
    """the same instant written three ways: UTC with +00:00; in +05:30 with that offset written; zone-less wall-clock
    time of -03:30 (to be read under --tz-offset -03:30)"""
    if style == "off":
        return fmt_us(us + 330 * 60 * 1000000) + "+05:30"
    if style == "naive":
        return fmt_us(us - 210 * 60 * 1000000)
    return fmt_us(us) + "+00:00"


def s4_times(path, cwd, rendering="short", after=None, before=None, tz="+00:00", style="utc"):
    """entry instants (microseconds) in print order, and the per-entry chunks"""
    if style == "naive":
        tz = "-03:30"
    args = ["--color", "never", "-t=" + tz, "-u", "-d", "%s%.6f", "--separator", SEP, "--journal-output", rendering]
    if after is not None:
        args += ["-a", bound_text(after, style)]
    if before is not None:
        args += ["-b", bound_text(before, style)]
    r = common.run_s4(args + [path], cwd=cwd, timeout=120)
    if r.timed_out or r.rc not in (0, 1):
        return None, r, args + [path]
    chunks = r.out.split(oracle.SEPB)
    tail = chunks.pop()
    times = []
    for c in chunks:
        first = c.split(b":", 1)[0]
        try:
            sec, frac = first.split(b".")
            times.append(int(sec) * 1000000 + int(frac))
        except Exception:
            return None, r, args + [path]
    return (times, chunks, tail), r, args + [path]


def parse_export(blob, binary_ok):
    """export stream -> list of entries, each a sorted list of (field, value bytes)"""
    ents, cur = [], []
    i, n = 0, len(blob)
    while i < n:
        j = blob.find(b"\n", i)
        if j < 0:
            j = n
        line = blob[i:j]
        if not line:
            if cur:
                ents.append(sorted(cur))
                cur = []
            i = j + 1
            continue
        if b"=" in line:
            k, v = line.split(b"=", 1)
            cur.append((k, v))
            i = j + 1
        elif binary_ok and j + 9 <= n:
            # journalctl's binary framing: FIELD\n<le64 length><data>\n
            ln = struct.unpack_from("<Q", blob, j + 1)[0]
            data = blob[j + 9:j + 9 + ln]
            cur.append((line, data))
            i = j + 9 + ln + 1
        else:
            cur.append((line, b""))
            i = j + 1
    if cur:
        ents.append(sorted(cur))
    return ents


def journals(work, tier):
    out = []
    for w in (["u3", "rhe"] if tier == "quick" else ["u3", "rhe", "suse", "u16"]):
        p = samples.journal(work, w)
        if p:
            out.append((w, os.path.basename(p)))
    # journals derived from the 3-entry journal: long fields, XZ-compressed fields, an entry without MESSAGE, a multi-line MESSAGE
    import journaledit
    p = os.path.join(work, "u3.journal")
    if os.path.exists(p):
        base = open(p, "rb").read()
        for name, blob in journaledit.variants(base):
            fn = "v_%s.journal" % name
            common.write_file(os.path.join(work, fn), blob)
            try:
                ref_entries(os.path.join(work, fn))
                out.append(("v_" + name, fn))
            except common.MachineryError:
                common.log("[C09] journalctl does not read derived journal %s; skipped" % name)
    # receive times that do not increase in journal order (names starting with nm_ are left out of the window leg:
    # seeking by time in such a file is undefined for the library itself)
    for w, fn0 in list(out):
        if w not in ("u3", "rhe"):
            continue
        base = open(os.path.join(work, fn0), "rb").read()
        for name, blob in journaledit.clock_variants(base, w):
            fn = "%s.journal" % name
            common.write_file(os.path.join(work, fn), blob)
            try:
                ref_entries(os.path.join(work, fn))
                out.append((name, fn))
            except common.MachineryError:
                common.log("[C09] journalctl does not read derived journal %s; skipped" % name)
    return out


def bounds_for(times, tier):
    distinct = sorted(set(times))
    if len(distinct) > (12 if tier == "quick" else 60):
        step = len(distinct) // (12 if tier == "quick" else 60)
        distinct = distinct[::step] + [distinct[-1]]
    bs = []
    for t in distinct:
        bs += [t - 1, t, t + 1]
    return sorted(set(bs))


def window_leg(res, tier, prop, work=None):
    """windows placed on / +-1us of entry times; oracle A<=t<=B over the journalctl sequence"""
    own = work is None
    work = work or common.scratch_dir(prop + "jw")
    try:
        for jname, fname in journals(work, tier):
            if jname.startswith("nm_"):
                continue
            ref = [int(e["__REALTIME_TIMESTAMP"]) for e in ref_entries(os.path.join(work, fname))]
            bs = bounds_for(ref, tier)
            wins = [(a, None, "utc") for a in bs] + [(None, b, "utc") for b in bs]
            pairs = bs[:: max(1, len(bs) // (8 if tier == "quick" else 40))]
            wins += [(a, b, "utc") for a in pairs for b in pairs if a <= b]
            # two-sided windows whose bounds are exactly entry times
            exact = sorted(set(ref))
            exact = exact if tier == "thorough" else exact[:: max(1, len(exact) // 12)] + exact[-1:]
            for i, t in enumerate(exact):
                wins += [(t, t, "utc"), (t - 1, t, "utc"), (t, t + 1, "utc")]
                if i:
                    wins.append((exact[i - 1], t, "utc"))
            # the same bounds written with a non-zero offset, and zone-less under a non-zero --tz-offset
            for st in ("off", "naive"):
                sub = bs if tier == "thorough" else bs[::3]
                wins += [(a, None, st) for a in sub] + [(None, b, st) for b in sub] + [(a, b, st) for a in pairs[::2] for b in pairs[::2] if a <= b]

            def one(w):
                return w, s4_times(fname, work, "short", w[0], w[1], style=w[2])
            for (a, b, st), (got, r, args) in common.pmap(one, wins):
                res.count()
                res.distinct((jname, a, b, st))
                exp = [t for t in ref if (a is None or t >= a) and (b is None or t <= b)]
                if got is None or got[0] != exp:
                    n = None if got is None else len(got[0])
                    at_b = b is not None and b in ref
                    at_a = a is not None and a in ref
                    res.violation({"kind": "journal", "symptom": "selection-differs", "bound_style": st, "before_bound_equals_an_entry_time": at_b, "after_bound_equals_an_entry_time": at_a,
                                   "missing_exactly_entries_at_before_bound": got is not None and at_b and got[0] == [t for t in exp if t != b]},
                                  "journal %s window [%s,%s]: %s entries printed, %d expected" % (jname, a, b, n, len(exp)),
                                  {"engine": "E-CLI", "args": args, "journal": jname})
            res.sample({"journal": jname, "entries": len(ref), "window_bounds": len(bs)})
    finally:
        if own:
            shutil.rmtree(work, ignore_errors=True)


def run(tier, seed, build=True):
    if build:
        common.build_real()
    res = common.Result(PROP, tier, "exploration", seed)
    work = common.scratch_dir(PROP)
    try:
        js = journals(work, tier)
        if not js:
            raise common.MachineryError("no journal file obtainable")
        for jname, fname in js:
            path = os.path.join(work, fname)
            ref = ref_entries(path)
            rtimes = [int(e["__REALTIME_TIMESTAMP"]) for e in ref]
            # every rendering: entry count, order, instant
            for rend in RENDERINGS:
                got, r, args = s4_times(fname, work, rend)
                res.count()
                res.distinct((jname, rend))
                rep = {"engine": "E-CLI", "args": args, "journal": jname}
                if got is None:
                    res.violation({"kind": "rendering", "rendering": rend, "symptom": "crash-or-unparseable"}, "journal %s rendering %s: rc=%s" % (jname, rend, r.rc), rep)
                    continue
                times = got[0]
                if rend == "cat":
                    # journalctl -o cat skips entries without MESSAGE; so may s4
                    exp = [int(e["__REALTIME_TIMESTAMP"]) for e in ref if "MESSAGE" in e]
                else:
                    exp = rtimes
                if times != exp:
                    sym = "count" if len(times) != len(exp) else ("order" if sorted(times) == sorted(exp) else "instant")
                    res.violation({"kind": "rendering", "rendering": rend, "symptom": "entries-" + sym}, "journal %s rendering %s: %d entries printed, %d in the journal (%s differs)" % (jname, rend, len(times), len(exp), sym), rep)
            # cat: byte for byte
            r = common.run_s4(["--color", "never", "-t", "+00:00", "--journal-output", "cat", fname], cwd=work, timeout=120)
            res.count()
            if r.out != jctl(path, "cat"):
                res.violation({"kind": "content", "rendering": "cat", "symptom": "bytes-differ"}, "journal %s: `--journal-output cat` differs from `journalctl -o cat`" % jname,
                              {"engine": "E-CLI", "args": ["--color", "never", "--journal-output", "cat", fname], "journal": jname})
            # export: per entry, every (field, value) journalctl reports must be printed as NAME=value (stored order may differ)
            r = common.run_s4(["--color", "never", "-t", "+00:00", "--separator", SEP, "--journal-output", "export", fname], cwd=work, timeout=120)
            res.count()
            chunks = r.out.split(oracle.SEPB)
            chunks.pop()
            theirs = parse_export(jctl(path, "export"), True)
            bad = None
            if len(chunks) != len(theirs):
                bad = "entry count %d vs %d" % (len(chunks), len(theirs))
            else:
                for i, (c, b) in enumerate(zip(chunks, theirs)):
                    want = [(k, v) for k, v in b if not k.startswith(b"__")]
                    missing = [(k, v) for k, v in want if (k + b"=" + v) not in c]
                    # nothing but the reported fields (and the address pseudo-fields) may be printed
                    rest = c
                    for k, v in sorted(want, key=lambda kv: -len(kv[1])):
                        rest = rest.replace(k + b"=" + v, b"", 1)
                    extra = [ln for ln in rest.split(b"\n") if ln.strip() and not ln.startswith(b"__")]
                    if missing or extra:
                        bad = "entry %d: missing %r, unexpected lines %r" % (i, missing[:2], extra[:2])
                        break
            if bad:
                res.violation({"kind": "content", "rendering": "export", "symptom": "fields-differ"}, "journal %s export: %s" % (jname, bad),
                              {"engine": "E-CLI", "args": ["--color", "never", "--journal-output", "export", fname], "journal": jname})
            # --tz-offset must not change the entry sequence or instants
            for tz in (["-11:00", "+05:45"] if tier == "quick" else ["-11:00", "-03:30", "+05:45", "+13:00"]):
                got, r, args = s4_times(fname, work, "short", tz=tz)
                res.count()
                if got is None or got[0] != rtimes:
                    res.violation({"kind": "tz", "symptom": "entries-differ"}, "journal %s with -t %s: entry sequence/instants change" % (jname, tz), {"engine": "E-CLI", "args": args, "journal": jname})
            # containers
            base_out = common.run_s4(["--color", "never", "-t", "+00:00", fname], cwd=work, timeout=120).out
            data = open(path, "rb").read()
            conts = {fname + ".gz": gen.gz(data, level=1), fname + ".xz": gen.xz(data, 0), "arch.tar": gen.tar([("j/" + fname, data)]),
                     # a member path longer than the 100-byte name field of a tar header
                     "long-gnu.tar": gen.tar([("var/log/journal/" + "0123456789abcdef" * 7 + "/" + fname, data)], fmt=tarfile.GNU_FORMAT),
                     "long-pax.tar": gen.tar([("var/log/journal/" + "0123456789abcdef" * 7 + "/" + fname, data)], fmt=tarfile.PAX_FORMAT)}
            if len(data) < 10000000:
                # lz4 blocks whose decoded size is not a multiple of 64 KiB
                conts["odd-" + fname + ".lz4"] = gen.lz4_frame(data, 50000, content_size=False)
            if tier == "thorough" or len(data) < 10000000:
                conts[fname + ".bz2"] = gen.bz(data, 1)
                conts[fname + ".lz4"] = gen.lz4_frame(data, 65536, content_size=True)
            for cn, blob in conts.items():
                cdir = os.path.join(work, "c_" + jname + "_" + cn.replace(".", "_"))
                common.write_file(os.path.join(cdir, cn), blob)
                r = common.run_s4(["--color", "never", "-t", "+00:00", cn], cwd=cdir, timeout=300)
                res.count()
                left = [f for f in os.listdir(cdir) if f != cn]
                if r.out != base_out or r.rc not in (0, 1):
                    res.violation({"kind": "container", "container": cn.rsplit(".", 1)[-1], "symptom": "bytes-differ"}, "journal %s stored as %s prints %d bytes vs %d for the plain file" % (jname, cn, len(r.out), len(base_out)),
                                  {"engine": "E-CLI", "args": ["--color", "never", cn], "journal": jname})
                shutil.rmtree(cdir, ignore_errors=True)
        # an archive holding two different journals whose member names end alike (`old-u3.journal`, then `u3.journal`):
        # each member must print its own entries
        names = dict(js)
        if "u3" in names and "v_multiline" in names:
            d2 = os.path.join(work, "tar2")
            da = open(os.path.join(work, names["v_multiline"]), "rb").read()
            db = open(os.path.join(work, names["u3"]), "rb").read()
            for order in (("old-u3.journal", "u3.journal"), ("u3.journal", "old-u3.journal")):
                members = [(n, da if n.startswith("old-") else db) for n in order]
                common.write_file(os.path.join(d2, "two.tar"), gen.tar(members))
                for n, blob in members:
                    common.write_file(os.path.join(d2, n), blob)
                for rend in ("cat", "export"):
                    ra = common.run_s4(["--color", "never", "-t", "+00:00", "--journal-output", rend, "two.tar"], cwd=d2, timeout=120)
                    rp = common.run_s4(["--color", "never", "-t", "+00:00", "--journal-output", rend] + [n for n, _ in members], cwd=d2, timeout=120)
                    res.count()
                    res.distinct(("tar2", order, rend))
                    if ra.out != rp.out or ra.rc not in (0, 1):
                        res.violation({"kind": "container", "container": "tar-two-journals", "symptom": "bytes-differ", "rendering": rend},
                                      "a tar with members %s prints %d bytes (%s); the two journals named as plain files print %d bytes" % ([n for n, _ in members], len(ra.out), rend, len(rp.out)),
                                      {"engine": "E-CLI", "args": ["--color", "never", "--journal-output", rend, "two.tar"], "journal": "u3 + v_multiline in one tar"})
            shutil.rmtree(d2, ignore_errors=True)
        window_leg(res, tier, PROP, work)
        res.sample({"journal": js[0][0], "renderings": RENDERINGS})
        res.coverage["rule"] = ("available journals x 10 --journal-output renderings (entry count, order, receive time vs `journalctl --file -o json`; cat byte for byte; export as per-entry field/value multisets) "
                                "x --tz-offset values x containers {gz,bz2,xz,lz4,tar} x windows with bounds on / +-1 us of entry times (A only, B only, pairs). distinct_nontrivial = distinct (journal, rendering) and (journal, window)")
    finally:
        shutil.rmtree(work, ignore_errors=True)
    res.assumptions += ["journalctl 252 is the independent reader; text of renderings other than cat/export is not compared (project documents differences, Issue #101)"]
    return res.finish()


def replay(path, build=True):
    if build:
        common.build_real()
    r = json.load(open(path))["replay"]
    work = common.scratch_dir(PROP + "r")
    try:
        samples.journal(work, "u3")
        if r["journal"].startswith("v_"):
            import journaledit
            for name, blob in journaledit.variants(open(os.path.join(work, "u3.journal"), "rb").read()):
                common.write_file(os.path.join(work, "v_%s.journal" % name), blob)
        else:
            samples.journal(work, r["journal"])
        x = common.run_s4(r["args"], cwd=work, timeout=120)
        common.log("rc=%s stdout %d bytes, %d entries (by separator)" % (x.rc, len(x.out), x.out.count(oracle.SEPB)))
        common.log(x.out[:1000].decode("utf-8", "replace"))
        return common.EXIT_OK
    finally:
        shutil.rmtree(work, ignore_errors=True)
