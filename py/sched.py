"""E-SCHED explorer: stateless exhaustive exploration of schedules of the real coordinator
(`s4v` = unmodified src/bin/s4.rs on the vsched scheduler), one fresh process per execution."""
import hashlib
import json
import os
import shutil
import subprocess
import threading
import time

import common


class Exec:
    __slots__ = ("choices", "trace", "out", "err", "rc", "tmp_left", "wall", "timed_out", "prefix_len")


class Config:
    """One closed driver configuration: files on disk + argv + scheduler flags."""

    def __init__(self, name, workdir, args, sources, sigint=False, hooks=False, postops=False, step_limit=20000, exec_timeout=60, policy=None, once=False, stdout_closed=False):
        self.name, self.workdir, self.args, self.sources = name, workdir, args, sources
        self.sigint, self.hooks, self.postops = sigint, hooks, postops
        self.step_limit, self.exec_timeout = step_limit, exec_timeout
        self.policy = policy
        self.once = once
        self.stdout_closed = stdout_closed      # stdout is a pipe whose reader is gone: every write fails with EPIPE
        self._n = 0
        self._lock = threading.Lock()

    def run(self, prefix, policy=None):
        with self._lock:
            self._n += 1
            n = self._n
        xdir = os.path.join(self.workdir, "x", "%s-%d-%d" % (self.name, threading.get_ident() % 100000, n))
        tmpdir = os.path.join(xdir, "tmp")
        os.makedirs(tmpdir)
        trace_path = os.path.join(xdir, "trace.json")
        env = dict(common.BASE_ENV)
        env.update({"S4V_TRACE": trace_path, "S4V_CHOICES": ",".join(str(c) for c in prefix),
                    "S4V_SOURCES": ",".join(self.sources), "S4V_STEP_LIMIT": str(self.step_limit), "TMPDIR": tmpdir})
        if policy or self.policy:
            env["S4V_POLICY"] = policy or self.policy
        if self.once:
            env["S4V_ONCE"] = "1"
        if self.sigint:
            env["S4V_SIGINT"] = "1"
        if self.hooks:
            env["S4V_HOOKS"] = "1"
        if self.postops:
            env["S4V_POSTOPS"] = "1"
        x = Exec()
        x.prefix_len = len(prefix)
        t0 = time.time()
        try:
            if self.stdout_closed:
                rfd, wfd = os.pipe()
                os.close(rfd)
                try:
                    p = subprocess.run([common.S4V] + self.args, cwd=self.workdir, env=env, stdin=subprocess.DEVNULL,
                                       stdout=wfd, stderr=subprocess.PIPE, timeout=self.exec_timeout)
                finally:
                    os.close(wfd)
                x.rc, x.out, x.err, x.timed_out = p.returncode, b"", p.stderr, False
            else:
                p = subprocess.run([common.S4V] + self.args, cwd=self.workdir, env=env, stdin=subprocess.DEVNULL,
                                   stdout=subprocess.PIPE, stderr=subprocess.PIPE, timeout=self.exec_timeout)
                x.rc, x.out, x.err, x.timed_out = p.returncode, p.stdout, p.stderr, False
        except subprocess.TimeoutExpired as e:
            x.rc, x.out, x.err, x.timed_out = None, e.stdout or b"", e.stderr or b"", True
        x.wall = time.time() - t0
        x.trace = None
        if os.path.exists(trace_path):
            try:
                x.trace = json.load(open(trace_path))
            except Exception:
                x.trace = None
        elif os.path.exists(trace_path + ".died"):
            try:
                x.trace = json.load(open(trace_path + ".died"))
            except Exception:
                x.trace = {"outcome": "died", "what": "?"}
        x.tmp_left = sorted(os.listdir(tmpdir))
        if x.trace and "decisions" in x.trace:
            x.choices = [d["c"] for d in x.trace["decisions"]]
        else:
            x.choices = list(prefix)
        shutil.rmtree(xdir, ignore_errors=True)
        return x


class Stats:
    def __init__(self):
        self.executions = 0
        self.transitions = 0
        self.states = set()
        self.outputs = {}
        self.histories = set()
        self.outcomes = {}
        self.max_q = 0
        self.max_decisions = 0
        self.replayed_twice = 0
        self.exhausted = True
        self.cap = None
        self.wall = 0.0
        self.tmp_left_execs = 0

    def as_dict(self):
        return {"executions": self.executions, "transitions": self.transitions, "states": len(self.states),
                "distinct_outputs": len(self.outputs), "distinct_receive_histories": len(self.histories),
                "outcomes": self.outcomes, "max_queue_len": self.max_q, "max_decisions": self.max_decisions,
                "replayed_twice": self.replayed_twice, "exhausted": self.exhausted, "cap": self.cap, "wall_s": round(self.wall, 1)}


def trace_key(tr):
    """what must be identical when a schedule is replayed"""
    return json.dumps([tr.get("outcome"), tr.get("decisions"), tr.get("events")], sort_keys=True)


def explore(cfg, judge, mode="pruned", max_dev=2, max_execs=200000, max_wall=3600, jobs=None, recheck_every=50):
    """Explore all schedules of `cfg`.
    mode "pruned": fingerprint-pruned, unbounded. mode "dev": unpruned, <= max_dev deviations from the default policy.
    `judge(x)` returns None or a (features, what) pair for a violating execution.
    Returns (Stats, violations:list[(features, what, choices)])."""
    jobs = jobs or common.NCPU
    st = Stats()
    lock = threading.Lock()
    seen = set()
    stack = [([], 0)]
    inflight = [0]
    violations = []
    t_start = time.time()
    cv = threading.Condition(lock)
    machinery = []

    def process(prefix, devs):
        x = cfg.run(prefix)
        with lock:
            st.executions += 1
            nexec = st.executions
        tr = x.trace
        if x.timed_out and not tr:
            machinery.append("execution hung without a trace (prefix %s)" % prefix)
            return
        if tr is None:
            # the process ended without writing a trace: a crash of the subject outside the scheduler's view
            v = judge(x)
            if v:
                with lock:
                    violations.append((v[0], v[1], list(prefix)))
            else:
                machinery.append("no trace and judge accepted it (rc=%s, prefix %s, stderr %r)" % (x.rc, prefix, x.err[-200:]))
            return
        outcome = tr.get("outcome")
        if outcome == "bad-choice":
            machinery.append("bad-choice while replaying prefix %s" % prefix)
            return
        decs = tr.get("decisions", [])
        # replay-prefix divergence check
        if [d["c"] for d in decs[:len(prefix)]] != list(prefix)[:len(decs)]:
            machinery.append("prefix divergence %s" % prefix)
            return
        if recheck_every and nexec % recheck_every == 0:
            x2 = cfg.run(prefix)
            if x2.trace is None or trace_key(x2.trace) != trace_key(tr) or x2.out != x.out:
                machinery.append("nondeterministic replay of prefix %s" % prefix)
                return
            with lock:
                st.replayed_twice += 1
        v = judge(x)
        new = []
        with lock:
            st.outcomes[outcome] = st.outcomes.get(outcome, 0) + 1
            st.transitions += max(0, len(decs) - max(0, len(prefix) - 1))
            st.max_q = max(st.max_q, tr.get("max_q", 0))
            st.max_decisions = max(st.max_decisions, len(decs))
            oh = hashlib.sha1(x.out).hexdigest()
            st.outputs[oh] = st.outputs.get(oh, 0) + 1
            st.histories.add(tr.get("main_hist"))
            if x.tmp_left:
                st.tmp_left_execs += 1
            if v:
                violations.append((v[0], v[1], [d["c"] for d in decs]))
            for i, d in enumerate(decs):
                st.states.add(d["fp"])
                if i < len(prefix):
                    continue
                n = len(d["e"])
                if mode == "pruned":
                    if (d["fp"], d["c"]) in seen:
                        # this state/choice was expanded (or queued) elsewhere; what follows here is the
                        # same default continuation, so every alternative below is already covered
                        break
                    seen.add((d["fp"], d["c"]))
                    for alt in range(n):
                        if alt != d["c"] and (d["fp"], alt) not in seen:
                            seen.add((d["fp"], alt))
                            new.append(([dd["c"] for dd in decs[:i]] + [alt], devs + 1))
                else:
                    if devs + 1 <= max_dev:
                        for alt in range(n):
                            if alt != d["c"]:
                                new.append(([dd["c"] for dd in decs[:i]] + [alt], devs + 1))
            stack.extend(new)

    def worker():
        while True:
            with cv:
                while True:
                    if machinery:
                        return
                    if st.cap:
                        return
                    if stack:
                        if st.executions + inflight[0] >= max_execs:
                            st.exhausted, st.cap = False, "max_execs=%d" % max_execs
                            cv.notify_all()
                            return
                        if time.time() - t_start > max_wall:
                            st.exhausted, st.cap = False, "max_wall=%ds" % max_wall
                            cv.notify_all()
                            return
                        if mode == "dev":
                            # fewest deviations first: a capped run has then covered every schedule up to some deviation count
                            k = min(range(len(stack)), key=lambda i: stack[i][1])
                            prefix, devs = stack.pop(k)
                        else:
                            prefix, devs = stack.pop()
                        inflight[0] += 1
                        break
                    if inflight[0] == 0:
                        cv.notify_all()
                        return
                    cv.wait(0.5)
            try:
                process(prefix, devs)
            except Exception as e:  # machinery
                machinery.append("explorer exception %r" % (e,))
            finally:
                with cv:
                    inflight[0] -= 1
                    cv.notify_all()

    ths = [threading.Thread(target=worker) for _ in range(jobs)]
    for t in ths:
        t.start()
    for t in ths:
        t.join()
    st.wall = time.time() - t_start
    if machinery:
        # Is the subject itself nondeterministic under a FIXED schedule? Then stdout is not a function of
        # inputs, options and schedule: that is a verdict (if stdout differs), not a machinery problem.
        outs = {}
        for _ in range(6):
            x = cfg.run([])
            outs.setdefault(x.out, x)
        if len(outs) > 1:
            xs = list(outs.values())
            v = judge(xs[0]) or judge(xs[1]) or ({"symptom": "stdout-differs"}, "stdout differs")
            feats = dict(v[0], nondeterministic_under_fixed_schedule=True)
            violations.append((feats, "the default schedule, run 6 times with identical inputs, produced %d different stdouts (%s)" % (len(outs), v[1]), []))
            st.exhausted = False
            st.cap = "exploration abandoned: subject nondeterministic under a fixed schedule"
            return st, violations
        raise common.MachineryError("E-SCHED %s: %s" % (cfg.name, machinery[0]))
    if stack and st.exhausted:
        st.exhausted = False
        st.cap = st.cap or "stopped with %d prefixes pending" % len(stack)
    st.pending = len(stack)
    return st, violations
