"""C10 — event-log files: every record once, ordered by creation time. Engine: E-CLI vs an independent
dump of the binary record headers (record id, FILETIME)."""
import json
import os
import re
import shutil
import struct
import tarfile
import zlib

import common
import gen
import oracle
import samples

PROP = "C10"
SEP = oracle.SEP
RID = re.compile(rb"<EventRecordID>(\d+)</EventRecordID>")
FT_EPOCH = 116444736000000000


def dump_records(blob):
    """[(record_id, filetime, absolute offset of the record)] in file order, from chunk/record headers only"""
    out = []
    off = 0x1000
    while off + 0x200 <= len(blob):
        if blob[off:off + 8] != b"ElfChnk\x00":
            off += 0x10000
            continue
        free = struct.unpack_from("<I", blob, off + 48)[0]
        p = off + 512
        end = off + min(free, 0x10000) if free else off + 0x10000
        while p + 24 <= end and blob[p:p + 4] == b"\x2a\x2a\x00\x00":
            size, rid, ft = struct.unpack_from("<IQQ", blob, p + 4)
            if size < 24:
                break
            out.append((rid, ft, p))
            p += size
        off += 0x10000
    return out


def ft_to_us(ft):
    return (ft - FT_EPOCH) // 10


def fmt_us(us):
    y, m, d, h, mi, s = gen.civil(us // 1000000)
    return "%04d%02d%02dT%02d%02d%02d.%06d+00:00" % (y, m, d, h, mi, s, us % 1000000)


def bound_text(us, style):
    """the same instant written as UTC (+00:00), in +05:30 with the offset written, or zone-less in -03:30 wall-clock time"""
    if style == "off":
        return fmt_us(us + 330 * 60 * 1000000)[:-6] + "+05:30"
    if style == "naive":
        return fmt_us(us - 210 * 60 * 1000000)[:-6]
    return fmt_us(us)


def s4_ids(fname, cwd, after=None, before=None, style="utc"):
    args = ["--color", "never", "-t=" + ("-03:30" if style == "naive" else "+00:00"), "--separator", SEP]
    if after is not None:
        args += ["-a", bound_text(after, style)]
    if before is not None:
        args += ["-b", bound_text(before, style)]
    r = common.run_s4(args + [fname], cwd=cwd, timeout=180)
    if r.timed_out or r.rc not in (0, 1):
        return None, r, args + [fname]
    chunks = r.out.split(oracle.SEPB)
    chunks.pop()
    ids = []
    for c in chunks:
        m = RID.findall(c)
        if len(m) != 1:
            return None, r, args + [fname]
        ids.append(int(m[0]))
    return ids, r, args + [fname]


POS2ID = {}   # file name -> {record offset: the EventRecordID its XML prints}, for files whose HEADER record numbers were rewritten


def relabel(name, recs):
    m = POS2ID.get(name)
    return recs if not m else [(m[p], ft, p) for _rid, ft, p in recs]


def patch_ties(blob, recs, submilli=False, header_ids=False):
    """copy the FILETIME of one record onto later ones (different positions, incl. across the out-of-order record) and
    recompute the chunk's record-data CRC32 and header CRC32. submilli: instead, make adjacent records disordered INSIDE
    one millisecond (+700 us stored before +200 us, +999.9 us before +0.1 us) and across a millisecond edge"""
    b = bytearray(blob)
    n = len(recs)
    if submilli:
        for k, (d1, d2) in ((4, (7000, 2000)), (20, (9999, 1)), (33, (10001, 9999)), (n - 2, (5000, 4999))):
            if k + 1 >= n or k < 0:
                continue
            base = recs[k][1] - recs[k][1] % 10000
            struct.pack_into("<Q", b, recs[k][2] + 16, base + d1)
            struct.pack_into("<Q", b, recs[k + 1][2] + 16, base + d2)
    groups = [(5, 6), (40, 41, 42), (n - 3, n - 1), (100, 50)] if not submilli else []
    for g in groups:
        if max(g) >= n:
            continue
        ft = recs[g[0]][1]
        for k in g[1:]:
            struct.pack_into("<Q", b, recs[k][2] + 16, ft)
        if header_ids and max(g) < n - 1:     # the chunk header names its last record number and the evtx crate stops there: that one stays
            # header_ids: the record NUMBER in the record header (not the EventRecordID inside the XML) of the tied records is
            # rewritten so that it descends in file order, and the last group shares one number: file position, not the header
            # number, is what "file order" means
            hid = sorted((recs[k][0] for k in g), reverse=True)
            if g == groups[-1]:
                hid = [hid[0]] * len(hid)
            for k, h in zip(sorted(g), hid):
                struct.pack_into("<Q", b, recs[k][2] + 8, h)
    off = 0x1000
    while off + 0x200 <= len(b):
        if b[off:off + 8] == b"ElfChnk\x00":
            free = struct.unpack_from("<I", b, off + 48)[0]
            crc = zlib.crc32(bytes(b[off + 512:off + free])) & 0xFFFFFFFF
            struct.pack_into("<I", b, off + 52, crc)
            hcrc = zlib.crc32(bytes(b[off:off + 120]) + bytes(b[off + 128:off + 512])) & 0xFFFFFFFF
            struct.pack_into("<I", b, off + 124, hcrc)
        off += 0x10000
    return bytes(b)


def files(work, tier):
    out = []
    p = samples.evtx(work, "pnp")
    if p:
        out.append(("pnp", "pnp.evtx"))
        blob = open(p, "rb").read()
        recs = dump_records(blob)
        common.write_file(os.path.join(work, "ties.evtx"), patch_ties(blob, recs))
        out.append(("ties", "ties.evtx"))
        common.write_file(os.path.join(work, "submilli.evtx"), patch_ties(blob, recs, submilli=True))
        out.append(("submilli", "submilli.evtx"))
        common.write_file(os.path.join(work, "tieids.evtx"), patch_ties(blob, recs, header_ids=True))
        POS2ID["tieids"] = {pos: rid for rid, _ft, pos in recs}
        out.append(("tieids", "tieids.evtx"))
    p = samples.evtx(work, "noevents")
    if p:
        out.append(("noevents", "noevents.evtx"))
    return out


def bounds_for(times, tier):
    d = sorted(set(times))
    k = 10 if tier == "quick" else 80
    if len(d) > k:
        step = max(1, len(d) // k)
        d = d[::step] + [d[-1]]
    bs = []
    for t in d:
        bs += [t - 1, t, t + 1]
    return sorted(set(bs))


def expected(recs, a=None, b=None):
    """stable sort by creation time (100 ns FILETIME), file order among equals; window on microsecond bounds"""
    sel = [(ft, i, rid) for i, (rid, ft, _p) in enumerate(recs)
           if (a is None or ft - FT_EPOCH >= a * 10) and (b is None or ft - FT_EPOCH <= b * 10 + 9)]
    sel.sort(key=lambda x: (x[0], x[1]))
    return [rid for _, _, rid in sel]


def window_leg(res, tier, prop, work=None):
    own = work is None
    work = work or common.scratch_dir(prop + "ew")
    try:
        for name, fname in files(work, tier):
            blob = open(os.path.join(work, fname), "rb").read()
            recs = relabel(name, dump_records(blob))
            if not recs:
                continue
            if name == "tieids" and tier == "quick":
                continue        # same times as "ties"; its windows are walked in the thorough tier
            bs = bounds_for([ft_to_us(ft) for _, ft, _ in recs], tier)
            allb = sorted({t + d for t in (ft_to_us(ft) for _, ft, _ in recs) for d in (-1, 0, 1)})
            # single bounds on / +-1 us of EVERY record time; pairs over an evenly spaced subset
            wins = [(a, None, "utc") for a in allb] + [(None, b, "utc") for b in allb]
            pairs = bs[:: max(1, len(bs) // (6 if tier == "quick" else 30))]
            wins += [(a, b, "utc") for a in pairs for b in pairs if a <= b]
            # two-sided windows whose bounds are exactly record times: [t,t], [previous t, t], [t-1, t], [t, t+1]
            exact = sorted(set(ft_to_us(ft) for _, ft, _ in recs))
            exact = exact if tier == "thorough" else exact[:: max(1, len(exact) // 12)] + exact[-1:]
            for i, t in enumerate(exact):
                wins += [(t, t, "utc"), (t - 1, t, "utc"), (t, t + 1, "utc")]
                if i:
                    wins.append((exact[i - 1], t, "utc"))
            # the same bounds written with a non-zero offset, and zone-less under a non-zero --tz-offset
            for st in ("off", "naive"):
                sub = bs if tier == "thorough" else bs[::3]
                wins += [(a, None, st) for a in sub] + [(None, b, st) for b in sub] + [(a, b, st) for a in pairs[::2] for b in pairs[::2] if a <= b]

            def one(w):
                return w, s4_ids(fname, work, w[0], w[1], w[2])
            for (a, b, st), (ids, r, args) in common.pmap(one, wins):
                res.count()
                res.distinct((name, a, b, st))
                exp = expected(recs, a, b)
                if ids != exp:
                    sym = "crash" if ids is None else ("selection-differs" if sorted(ids) != sorted(exp) else "order-differs")
                    res.violation({"kind": "evtx", "file": name, "symptom": sym, "bound_style": st, "has_before": b is not None, "has_after": a is not None},
                                  "evtx %s window [%s,%s]: printed %s records, expected %d" % (name, a, b, None if ids is None else len(ids), len(exp)),
                                  {"engine": "E-CLI", "args": args, "evtx": name})
            res.sample({"evtx": name, "records": len(recs), "window_bounds": len(bs)})
    finally:
        if own:
            shutil.rmtree(work, ignore_errors=True)


def run(tier, seed, build=True):
    if build:
        common.build_real()
    res = common.Result(PROP, tier, "exploration", seed)
    work = common.scratch_dir(PROP)
    try:
        fl = files(work, tier)
        if not fl:
            raise common.MachineryError("no evtx file obtainable")
        for name, fname in fl:
            blob = open(os.path.join(work, fname), "rb").read()
            recs = relabel(name, dump_records(blob))
            ids, r, args = s4_ids(fname, work)
            res.count()
            res.distinct((name, "all"))
            exp = expected(recs)
            fts = [ft for _, ft, _ in recs]
            stored_in_order = fts == sorted(fts)
            n_ties = len(fts) - len(set(fts))
            res.coverage.setdefault("files", {})[name] = {"records": len(recs), "stored_in_time_order": stored_in_order, "records_sharing_a_time": n_ties}
            if ids != exp:
                sym = "crash" if ids is None else ("records-differ" if sorted(ids) != sorted(exp) else "order-differs")
                feats = {"kind": "order", "file": name, "symptom": sym}
                if ids is not None and sym == "order-differs":
                    # do the misplaced records all belong to tie groups?
                    tie_ids = {rid for rid, ft, _ in recs if fts.count(ft) > 1}
                    feats["only_tied_records_misplaced"] = all(x == y or (x in tie_ids and y in tie_ids) for x, y in zip(ids, exp))
                res.violation(feats, "evtx %s: printed record sequence differs from the stable sort by creation time (%s printed, %d records)" % (name, None if ids is None else len(ids), len(exp)),
                              {"engine": "E-CLI", "args": args, "evtx": name})
            # containers
            if recs:
                base_out = common.run_s4(["--color", "never", "-t", "+00:00", fname], cwd=work, timeout=180).out
                conts = {fname + ".gz": gen.gz(blob, level=1), fname + ".xz": gen.xz(blob, 0), fname + ".bz2": gen.bz(blob, 1),
                         fname + ".lz4": gen.lz4_frame(blob, 10000, content_size=True), "a.tar": gen.tar([("d/" + fname, blob)]),
                         # a member path longer than the 100-byte name field of a tar header (as in collected winevt trees)
                         "long-gnu.tar": gen.tar([("C/Windows/System32/winevt/Logs/" + "Microsoft-Windows-Kernel-PnP%4Configuration-" * 3 + fname, blob)], fmt=tarfile.GNU_FORMAT),
                         "long-pax.tar": gen.tar([("C/Windows/System32/winevt/Logs/" + "Microsoft-Windows-Kernel-PnP%4Configuration-" * 3 + fname, blob)], fmt=tarfile.PAX_FORMAT)}
                # archives with TWO event logs, one member path being the tail of the other's (an `old/` copy next to the
                # current file, either order): each member is unpacked by its own full path; the second log has no events
                ne = os.path.join(work, "noevents.evtx")
                if name != "noevents" and os.path.exists(ne):
                    neb = open(ne, "rb").read()
                    conts["two-old-first.tar"] = gen.tar([("old/" + fname, neb), (fname, blob)])
                    conts["two-old-last.tar"] = gen.tar([(fname, blob), ("old/" + fname, neb)])
                    conts["two-nested.tar"] = gen.tar([("logs/a/" + fname, neb), ("a/" + fname, blob)])
                # an lz4 frame whose blocks follow the file structure (4096-byte header, then one block per 64 KiB chunk)
                for cn, cb in conts.items():
                    cdir = os.path.join(work, "c_%s_%s" % (name, cn.replace(".", "_")))
                    common.write_file(os.path.join(cdir, cn), cb)
                    rr = common.run_s4(["--color", "never", "-t", "+00:00", cn], cwd=cdir, timeout=300)
                    res.count()
                    res.distinct((name, cn))
                    if rr.out != base_out or rr.rc not in (0, 1):
                        res.violation({"kind": "container", "container": cn.rsplit(".", 1)[-1], "symptom": "bytes-differ"},
                                      "evtx %s stored as %s prints %d bytes vs %d for the plain file" % (name, cn, len(rr.out), len(base_out)),
                                      {"engine": "E-CLI", "args": ["--color", "never", cn], "evtx": name})
                    shutil.rmtree(cdir, ignore_errors=True)
        window_leg(res, tier, PROP, work)
        res.coverage["rule"] = ("shipped .evtx files plus a derived file in which the FILETIME of chosen records is patched to equal values (chunk CRCs recomputed), printed through the real binary; "
                                "oracle: independent dump of (record id, FILETIME) from the binary chunk/record headers, stable sort by time, file order among equals; windows with bounds on / +-1 us of "
                                "record times; containers gz/bz2/xz/lz4/tar. distinct_nontrivial = distinct (file, window) and (file, container)")
    finally:
        shutil.rmtree(work, ignore_errors=True)
    res.assumptions += ["only two .evtx files are shipped; equal creation times are produced by patching record headers of the larger one"]
    return res.finish()


def replay(path, build=True):
    if build:
        common.build_real()
    r = json.load(open(path))["replay"]
    work = common.scratch_dir(PROP + "r")
    try:
        files(work, "thorough")
        x = common.run_s4(r["args"], cwd=work, timeout=180)
        ids = [int(i) for i in RID.findall(x.out)]
        common.log("rc=%s %d records printed; first ids %s" % (x.rc, len(ids), ids[:20]))
        return common.EXIT_OK
    finally:
        shutil.rmtree(work, ignore_errors=True)
