"""C17 — memory held for a streamed text log does not grow with its size. Engines: E-SEQ (+ E-CLI leg on --summary)."""
import json
import os
import re
import shutil
import subprocess

import common
import gen
import seqxdrv

PROP = "C17"
E = gen.EPOCH_2000
HIGH = re.compile(rb"^\s*(blocks high|lines high|syslines high)\s*:\s*(\d+)", re.M)


def shape_file(shape, bsz, nblocks):
    out = []
    size = 0
    i = 0
    while size < bsz * nblocks:
        if shape == "multiblock" and i % 50 == 49:
            ln = gen.ts0(1000 * (E + i)) + b" " + b"m" * (3 * bsz + bsz // 2 - 24) + b"\n"
        else:
            ln = gen.ts0(1000 * (E + i)) + b" " + b"m" * (14 + i % 5) + b"\n"
        out.append(ln)
        size += len(ln)
        i += 1
    data = b"".join(out)
    aligned = sum(1 for b in range(len(data) // bsz) if data[(b + 1) * bsz - 1] == 0x0A)
    return data, aligned


def cli_leg(res, tier):
    """the real binary's own --summary high-water marks on plain/gz/bz2/lz4 files of growing size"""
    work = common.scratch_dir(PROP)
    try:
        bsz = 1024
        sizes = [32, 256, 1024] if tier == "quick" else [32, 256, 1024, 4096]
        for shape in ("short", "multiblock"):
            for cont in ("plain", "gz", "bz2", "lz4"):
                base = None
                for nb in sizes:
                    data, aligned = shape_file(shape, bsz, nb)
                    fn = {"plain": "f.log", "gz": "f.log.gz", "bz2": "f.log.bz2", "lz4": "f.log.lz4"}[cont]
                    blob = {"plain": data, "gz": gen.gz(data, 1), "bz2": gen.bz(data, 1), "lz4": gen.lz4_frame(data, 65536, content_size=True)}[cont]
                    common.write_file(os.path.join(work, fn), blob)
                    r = common.run_s4(["--color", "never", "-s", "-t", "+00:00", "--blocksz", str(bsz), fn], cwd=work, timeout=300)
                    res.count()
                    res.distinct(("cli", shape, cont, nb))
                    marks = {k.decode(): int(v) for k, v in HIGH.findall(r.err)}
                    if r.rc not in (0, 1) or len(marks) < 3:
                        res.violation({"level": "cli", "symptom": "run-failed", "container": cont}, "%s %s %d blocks: rc=%s marks=%s" % (shape, cont, nb, r.rc, marks),
                                      {"engine": "E-CLI", "shape": shape, "container": cont, "blocks": nb})
                        continue
                    if base is None:
                        base = marks
                        continue
                    for k in ("blocks high", "lines high", "syslines high"):
                        # the coordinator holds up to a channel's worth of messages (schedule dependent), so the real
                        # binary's marks jitter by a few blocks' worth of lines; linear growth over a 32x..128x size range is far above this
                        allow = 4 * base[k] + 64 + (aligned if (cont == "plain" and k == "blocks high") else 0)
                        if marks[k] > allow:
                            res.violation({"level": "cli", "symptom": "grows", "mark": k.split()[0], "shape": shape, "container": cont,
                                           "explained_by_blocks_ending_in_newline": False},
                                          "real binary, %s %s blocksz %d, %d blocks: `%s` %d (at %d blocks: %d; %d blocks end with a newline)" % (shape, cont, bsz, nb, k, marks[k], sizes[0], base[k], aligned),
                                          {"engine": "E-CLI", "shape": shape, "container": cont, "blocks": nb})
    finally:
        shutil.rmtree(work, ignore_errors=True)


def run(tier, seed, build=True):
    if build:
        common.build_harness(("seqx",))
        common.build_real()
    res = common.Result(PROP, tier, "exploration", seed)
    s = seqxdrv.run_sub(res, "c17", tier)
    seqxdrv.merge_summary(res, s)
    cli_leg(res, tier)
    res.assumptions += ["in-process runs release a message as soon as the next one is delivered (the real binary may hold up to a channel's worth longer: the E-CLI leg allows 4x the smallest size's mark + 64)"]
    return res.finish()


def replay(path, build=True):
    if build:
        common.build_harness(("seqx",))
    p = subprocess.run([common.SEQX, "c17", "--replay", path], capture_output=True, text=True)
    common.log(p.stdout.strip()[-2000:])
    return common.EXIT_OK
