"""C17 — memory held for a streamed text log does not grow with its size. Engines: E-SEQ (+ E-CLI leg on --summary)."""
import json
import os
import re
import shutil
import subprocess

import common
import gen
import seqxdrv

PROP = "C17"
E = gen.EPOCH_2000
HIGH = re.compile(rb"^\s*(blocks high|lines high|syslines high)\s*:\s*(\d+)", re.M)


def shape_file(shape, bsz, nblocks):
    out = []
    size = 0
    i = 0
    while size < bsz * nblocks:
        if shape == "yy2":
            # the one built-in notation with a two-digit year (opentftp): `[22-Feb-17 21:24:20] ...`
            y, mo, d, h, mi, sec = gen.civil(E + 17 * 365 * 86400 + i)
            ln = b"[%02d-%s-%02d %02d:%02d:%02d] client 10.0.0.%d request %d\n" % (d, [b"Jan", b"Feb", b"Mar", b"Apr", b"May", b"Jun", b"Jul", b"Aug", b"Sep", b"Oct", b"Nov", b"Dec"][mo - 1], y % 100, h, mi, sec, i % 250, i)
        elif shape == "multiblock" and i % 50 == 49:
            ln = gen.ts0(1000 * (E + i)) + b" " + b"m" * (3 * bsz + bsz // 2 - 24) + b"\n"
        else:
            ln = gen.ts0(1000 * (E + i)) + b" " + b"m" * (14 + i % 5) + b"\n"
        out.append(ln)
        size += len(ln)
        i += 1
    data = b"".join(out)
    aligned = sum(1 for b in range(len(data) // bsz) if data[(b + 1) * bsz - 1] == 0x0A)
    return data, aligned


def cli_leg(res, tier):
    """the real binary's own --summary high-water marks on plain/gz/bz2/lz4 files of growing size"""
    work = common.scratch_dir(PROP)
    try:
        bsz = 1024
        sizes = [32, 256, 1024] if tier == "quick" else [32, 256, 1024, 4096]
        for shape in ("short", "multiblock", "yy2"):
            for cont in ("plain", "gz", "bz2", "lz4"):
                base = None
                for nb in sizes:
                    data, aligned = shape_file(shape, bsz, nb)
                    fn = {"plain": "f.log", "gz": "f.log.gz", "bz2": "f.log.bz2", "lz4": "f.log.lz4"}[cont]
                    blob = {"plain": data, "gz": gen.gz(data, 1), "bz2": gen.bz(data, 1), "lz4": gen.lz4_frame(data, 65536, content_size=True)}[cont]
                    common.write_file(os.path.join(work, fn), blob)
                    r = common.run_s4(["--color", "never", "-s", "-t", "+00:00", "--blocksz", str(bsz), fn], cwd=work, timeout=300)
                    res.count()
                    res.distinct(("cli", shape, cont, nb))
                    marks = {k.decode(): int(v) for k, v in HIGH.findall(r.err)}
                    if r.rc not in (0, 1) or len(marks) < 3:
                        res.violation({"level": "cli", "symptom": "run-failed", "container": cont}, "%s %s %d blocks: rc=%s marks=%s" % (shape, cont, nb, r.rc, marks),
                                      {"engine": "E-CLI", "shape": shape, "container": cont, "blocks": nb})
                        continue
                    if base is None:
                        base = marks
                        continue
                    for k in ("blocks high", "lines high", "syslines high"):
                        # the coordinator holds up to a channel's worth of messages (schedule dependent), so the real
                        # binary's marks jitter by a few blocks' worth of lines; linear growth over a 32x..128x size range is far above this
                        allow = 4 * base[k] + 64 + (aligned if (cont == "plain" and k == "blocks high") else 0)
                        if marks[k] > allow:
                            res.violation({"level": "cli", "symptom": "grows", "mark": k.split()[0], "shape": shape, "container": cont,
                                           "explained_by_blocks_ending_in_newline": False},
                                          "real binary, %s %s blocksz %d, %d blocks: `%s` %d (at %d blocks: %d; %d blocks end with a newline)" % (shape, cont, bsz, nb, k, marks[k], sizes[0], base[k], aligned),
                                          {"engine": "E-CLI", "shape": shape, "container": cont, "blocks": nb})
    finally:
        shutil.rmtree(work, ignore_errors=True)


DROPS = re.compile(rb"drop_sysline\(\)\s*:\s*Ok\s*(\d+),\s*Err\s*(\d+)")


def sched_leg(res, tier):
    """The coordinator (printing thread) under controlled canonical schedules: it lags as far behind the file's worker
    as the bounded channel allows (workers-first), stays as close as possible (main-first), or the running thread keeps
    running (sticky). The marks of the whole program must not grow with the file size under any of them."""
    import sched
    work = common.scratch_dir(PROP + "s")
    try:
        bsz = 512
        sizes = [150, 600] if tier == "quick" else [150, 600, 2400]
        # line length relative to the block size: several messages per block ... a message longer than a block
        lens = [60, 180, 300, 450, 800] if tier == "quick" else [60, 120, 180, 240, 300, 380, 450, 520, 800, 1300]
        pols = ["main-first", "workers-first", "sticky"]
        items = []
        for ll in lens:
            for n in sizes:
                fn = "l%d_n%d.log" % (ll, n)
                data = gen.text_log([(E * 1000 + i * 1000, b"x" * (ll - 34) + b" %06d" % i) for i in range(n)])
                common.write_file(os.path.join(work, fn), data)
                aligned = sum(1 for b in range(len(data) // bsz) if data[(b + 1) * bsz - 1] == 0x0A)
                for pol in pols:
                    items.append((ll, n, fn, pol, aligned))

        def one(it):
            ll, n, fn, pol, aligned = it
            cfg = sched.Config("c17", work, ["--color", "never", "-s", "-t", "+00:00", "--blocksz", str(bsz), fn], [fn], step_limit=5000000, exec_timeout=600)
            return it, cfg.run([], policy=pol)
        got = {}
        for (ll, n, fn, pol, aligned), x in common.pmap(one, items):
            res.count()
            res.distinct(("sched", ll, n, pol))
            oc = x.trace.get("outcome") if x.trace else "no-trace"
            marks = {k.decode(): int(v) for k, v in HIGH.findall(x.err)}
            d = DROPS.search(x.err)
            if oc != "completed" or len(marks) < 3:
                res.violation({"level": "sched", "symptom": "run-failed", "policy": pol}, "line length %d, %d messages, %s: outcome %s marks %s" % (ll, n, pol, oc, marks),
                              {"engine": "E-SCHED", "line_len": ll, "messages": n, "policy": pol, "blocksz": bsz})
                continue
            got[(ll, n, pol)] = (marks, int(d.group(2)) if d else 0, aligned)
        for ll in lens:
            for pol in pols:
                if (ll, sizes[0], pol) not in got:
                    continue
                b0, e0, _ = got[(ll, sizes[0], pol)]
                for n in sizes[1:]:
                    if (ll, n, pol) not in got:
                        continue
                    m, e, aligned = got[(ll, n, pol)]
                    for k in ("blocks high", "lines high", "syslines high"):
                        allow = 2 * b0[k] + 16 + (aligned if k == "blocks high" else 0)
                        if m[k] > allow:
                            res.violation({"level": "sched", "symptom": "grows", "mark": k.split()[0], "policy": pol, "container": "plain",
                                           "failed_drops_grow_with_size": e > e0 + 8, "explained_by_blocks_ending_in_newline": False},
                                          "s4v under policy %s, %d-byte lines at --blocksz %d: `%s` is %d for %d messages, %d for %d messages (failed drop_sysline %d -> %d)" % (
                                              pol, ll, bsz, k, b0[k], sizes[0], m[k], n, e0, e),
                                          {"engine": "E-SCHED", "line_len": ll, "messages": n, "policy": pol, "blocksz": bsz})
        res.coverage["sched_leg_runs"] = len(items)
    finally:
        shutil.rmtree(work, ignore_errors=True)


def run(tier, seed, build=True):
    if build:
        common.build_harness(("seqx", "s4v"))
        common.build_real()
    res = common.Result(PROP, tier, "exploration", seed)
    s = seqxdrv.run_sub(res, "c17", tier)
    seqxdrv.merge_summary(res, s)
    cli_leg(res, tier)
    sched_leg(res, tier)
    res.assumptions += ["in-process runs release a message as soon as the next one is delivered (the real binary may hold up to a channel's worth longer: the E-CLI leg allows 4x the smallest size's mark + 64)"]
    return res.finish()


def replay(path, build=True):
    if build:
        common.build_harness(("seqx",))
    p = subprocess.run([common.SEQX, "c17", "--replay", path], capture_output=True, text=True)
    common.log(p.stdout.strip()[-2000:])
    return common.EXIT_OK
