"""Record layouts for accounting files, read at run time from the platform documents shipped in
/repo/logs (`utmp-offsets_*.out.txt`: field, offset and size as printed by each platform's own compiler)
- NOT from s4lib's structs."""
import os
import re
import struct

import common

_FIELD = re.compile(r"^\s*([A-Za-z_0-9]+)\.([A-Za-z_0-9\.]+)\s*@\s*(\d+)\s+sizeof\s+(\d+)")
_STRUCT = re.compile(r"^\s*([A-Za-z_0-9]+)\s+sizeof\s+(\d+)\s*$")
_CONST = re.compile(r"^\s*([A-Z_]+)\s+(\d+)\s*$")


def parse_doc(path):
    structs, consts = {}, {}
    for line in open(path, errors="replace"):
        m = _FIELD.match(line)
        if m:
            s, f, off, sz = m.group(1), m.group(2), int(m.group(3)), int(m.group(4))
            structs.setdefault(s, {"size": None, "fields": {}})["fields"][f] = (off, sz)
            continue
        m = _STRUCT.match(line)
        if m:
            structs.setdefault(m.group(1), {"size": None, "fields": {}})["size"] = int(m.group(2))
            continue
        m = _CONST.match(line)
        if m:
            consts[m.group(1)] = int(m.group(2))
    return structs, consts


DOCS = {
    "linux_x86": "CentOS7/x86_64/utmp-offsets_x86_64_CentOS_7.out.txt",
    "linux_arm64": "Debian12/aarch64_ARM64/utmp-offsets_Debian12_GNU_Linux_ARM64.out.txt",
    "freebsd_x8664": "FreeBSD13.1/x86_64/utmp-offsets_amd64_FreeBSD13.1.out.txt",
    "netbsd_x8632": "NetBSD9.3/x86_32/utmp-offsets_i386_NetBSD_9.3_.out.txt",
    "netbsd_x8664": "NetBSD9.3/x86_64/utmp-offsets_x86_64_NetBSD_9.3_.out.txt",
    "openbsd_x86": "OpenBSD7.4/x86_64/utmp-offsets_amd64_OpenBSD_7.4_.out.txt",
}

# (layout id, platform doc, struct in the doc, file name that selects the reader, kind)
LAYOUTS = [
    ("freebsd_x8664_utmpx", "freebsd_x8664", "utmpx", "utx.log.utmpx", "utmpx"),
    ("linux_arm64_lastlog", "linux_arm64", "lastlog", "lastlog", "lastlog"),
    ("linux_arm64_utmpx", "linux_arm64", "utmpx", "wtmp", "utmpx"),
    ("linux_x86_acct", "linux_arm64", "acct", "acct", "acct"),          # Linux acct layout is the same on both (doc: ARM64)
    ("linux_x86_acct_v3", "linux_arm64", "acct_v3", "pacct", "acct_v3"),
    ("linux_x86_lastlog", "linux_x86", "lastlog", "lastlog", "lastlog"),
    ("linux_x86_utmpx", "linux_x86", "utmpx", "wtmp", "utmpx"),
    ("netbsd_x8632_acct", "netbsd_x8632", "acct", "acct", "acct_bsd"),
    ("netbsd_x8632_lastlogx", "netbsd_x8632", "lastlogx", "lastlogx", "lastlogx"),
    ("netbsd_x8632_utmpx", "netbsd_x8632", "utmpx", "wtmpx", "utmpx"),
    ("netbsd_x8664_lastlog", "netbsd_x8664", "lastlog", "lastlog", "lastlog"),
    ("netbsd_x8664_lastlogx", "netbsd_x8664", "lastlogx", "lastlogx", "lastlogx"),
    ("netbsd_x8664_utmp", "netbsd_x8664", "utmp", "wtmp", "utmp_bsd"),
    ("netbsd_x8664_utmpx", "netbsd_x8664", "utmpx", "wtmpx", "utmpx"),
    ("openbsd_x86_lastlog", "openbsd_x86", "lastlog", "lastlog", "lastlog"),
    ("openbsd_x86_utmp", "openbsd_x86", "utmp", "wtmp", "utmp_bsd"),
]

_cache = {}


def layout(lid):
    if lid in _cache:
        return _cache[lid]
    for l in LAYOUTS:
        if l[0] == lid:
            structs, consts = parse_doc(os.path.join(common.REPO, "logs", DOCS[l[1]]))
            st = structs.get(l[2])
            if not st or not st["size"]:
                raise common.MachineryError("layout %s: struct %s not found in %s" % (lid, l[2], DOCS[l[1]]))
            tv = structs.get("timeval") or structs.get("__timeval")
            fields = dict(st["fields"])
            if lid == "linux_x86_utmpx" and "ut_addr_v6" not in fields:
                fields["ut_addr_v6"] = (348, 16)      # the platform document stops at ut_tv; struct utmp (x86): ut_tv at 340 (2 x int32), then int32_t ut_addr_v6[4]
            _cache[lid] = {"id": lid, "size": st["size"], "fields": fields, "consts": consts, "file": l[3], "kind": l[4], "timeval": tv}
            return _cache[lid]
    raise KeyError(lid)


def _put(buf, off, sz, val):
    buf[off:off + sz] = int(val).to_bytes(sz, "little", signed=val < 0)


def _puts(buf, off, sz, s):
    s = s[:sz]
    buf[off:off + len(s)] = s


def usec_capable(lay):
    return "ut_tv" in lay["fields"] or "ll_tv" in lay["fields"]


def record(lay, sec, usec, tok, idx, fat=False):
    """One plausible record for the layout with unique token `tok` (bytes, <=5 chars) in its string fields.
    fat: every string field is filled to its full width (no terminating NUL) and numeric fields are wide,
    which makes the printed text as long as the layout allows."""
    f = lay["fields"]
    buf = bytearray(lay["size"])
    kind = lay["kind"]
    if fat:
        return _fat_record(lay, sec, usec, tok, idx)
    if kind in ("utmpx", "utmp_bsd"):
        if "ut_type" in f:
            up = lay["consts"].get("USER_PROCESS", 7)
            _put(buf, f["ut_type"][0], f["ut_type"][1], up)
        if "ut_pid" in f:
            _put(buf, f["ut_pid"][0], f["ut_pid"][1], 1000 + idx)
        _puts(buf, f["ut_line"][0], f["ut_line"][1], b"p" + tok)
        if "ut_id" in f:
            _puts(buf, f["ut_id"][0], f["ut_id"][1], b"i" + tok[-3:])
        nm = f.get("ut_user") or f.get("ut_name")
        _puts(buf, nm[0], nm[1], b"u" + tok)
        _puts(buf, f["ut_host"][0], f["ut_host"][1], b"h" + tok + (b".example" if f["ut_host"][1] >= 32 else b""))
        if "ut_tv.tv_sec" in f:
            _put(buf, f["ut_tv.tv_sec"][0], f["ut_tv.tv_sec"][1], sec)
            if "ut_tv.tv_usec" in f:
                uo, us = f["ut_tv.tv_usec"]
            else:
                # the document's last line is cut off: tv_usec follows tv_sec inside ut_tv
                uo = f["ut_tv.tv_sec"][0] + f["ut_tv.tv_sec"][1]
                us = f["ut_tv"][1] - f["ut_tv.tv_sec"][1]
            _put(buf, uo, us, usec)
        else:
            _put(buf, f["ut_time"][0], f["ut_time"][1], sec)
    elif kind == "lastlog":
        _put(buf, f["ll_time"][0], f["ll_time"][1], sec)
        _puts(buf, f["ll_line"][0], f["ll_line"][1], b"p" + tok)
        _puts(buf, f["ll_host"][0], f["ll_host"][1], b"h" + tok)
    elif kind == "lastlogx":
        tv = lay["timeval"]["fields"]
        base = f["ll_tv"][0]
        _put(buf, base + tv["tv_sec"][0], tv["tv_sec"][1], sec)
        _put(buf, base + tv["tv_usec"][0], tv["tv_usec"][1], usec)
        _puts(buf, f["ll_line"][0], f["ll_line"][1], b"p" + tok)
        _puts(buf, f["ll_host"][0], f["ll_host"][1], b"h" + tok + b".example")
    elif kind in ("acct", "acct_v3", "acct_bsd"):
        _puts(buf, f["ac_comm"][0], min(f["ac_comm"][1], 15), b"c" + tok)
        _put(buf, f["ac_btime"][0], f["ac_btime"][1], sec)
        _put(buf, f["ac_uid"][0], f["ac_uid"][1], 1000)
        _put(buf, f["ac_gid"][0], f["ac_gid"][1], 1000)
        _put(buf, f["ac_flag"][0], 1, 0 if kind != "acct_v3" else 0)
        if "ac_version" in f:
            _put(buf, f["ac_version"][0], 1, 3)
        if "ac_pid" in f:
            _put(buf, f["ac_pid"][0], f["ac_pid"][1], 1000 + idx)
            _put(buf, f["ac_ppid"][0], f["ac_ppid"][1], 1)
        if kind == "acct_v3":
            _put(buf, f["ac_etime"][0], 4, struct.unpack("<I", struct.pack("<f", 1.5))[0])
        else:
            _put(buf, f["ac_etime"][0], f["ac_etime"][1], 10)
        _put(buf, f["ac_utime"][0], f["ac_utime"][1], 3)
        _put(buf, f["ac_stime"][0], f["ac_stime"][1], 2)
        _put(buf, f["ac_mem"][0], f["ac_mem"][1], 100)
    else:
        raise ValueError(kind)
    return bytes(buf)


def _fat_record(lay, sec, usec, tok, idx):
    f = lay["fields"]
    buf = bytearray(lay["size"])
    kind = lay["kind"]

    def full(name, lead):
        off, sz = f[name]
        s_ = (lead + tok + b"w" * sz)[:sz]
        buf[off:off + sz] = s_
    if kind in ("utmpx", "utmp_bsd"):
        if "ut_type" in f:
            _put(buf, f["ut_type"][0], f["ut_type"][1], lay["consts"].get("USER_PROCESS", 7))
        if "ut_pid" in f:
            _put(buf, f["ut_pid"][0], f["ut_pid"][1], 2147483000 + idx)
        full("ut_line", b"p")
        if "ut_id" in f:
            full("ut_id", b"i")
        full("ut_user" if "ut_user" in f else "ut_name", b"u")
        full("ut_host", b"h")
        if "ut_session" in f:
            _put(buf, f["ut_session"][0], f["ut_session"][1], (1 << (8 * f["ut_session"][1] - 1)) - 1)
        if "ut_exit" in f:
            _put(buf, f["ut_exit"][0], f["ut_exit"][1], 0x7FFF7FFF & ((1 << (8 * f["ut_exit"][1])) - 1))
        if "ut_addr_v6" in f:
            buf[f["ut_addr_v6"][0]:f["ut_addr_v6"][0] + 16] = bytes([0xFE, 0x80] + [0xAB] * 14)
        if "ut_tv.tv_sec" in f:
            _put(buf, f["ut_tv.tv_sec"][0], f["ut_tv.tv_sec"][1], sec)
            if "ut_tv.tv_usec" in f:
                uo, us = f["ut_tv.tv_usec"]
            else:
                uo = f["ut_tv.tv_sec"][0] + f["ut_tv.tv_sec"][1]
                us = f["ut_tv"][1] - f["ut_tv.tv_sec"][1]
            _put(buf, uo, us, usec)
        else:
            _put(buf, f["ut_time"][0], f["ut_time"][1], sec)
        return bytes(buf)
    if kind == "lastlog":
        _put(buf, f["ll_time"][0], f["ll_time"][1], sec)
        full("ll_line", b"p")
        full("ll_host", b"h")
        return bytes(buf)
    if kind == "lastlogx":
        tv = lay["timeval"]["fields"]
        base = f["ll_tv"][0]
        _put(buf, base + tv["tv_sec"][0], tv["tv_sec"][1], sec)
        _put(buf, base + tv["tv_usec"][0], tv["tv_usec"][1], usec)
        full("ll_line", b"p")
        full("ll_host", b"h")
        return bytes(buf)
    return record(lay, sec, usec, tok, idx)


def tokens_of(tok):
    """substrings that must appear in the printed line of the record carrying `tok`"""
    return [tok]
