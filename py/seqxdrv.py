"""Driver for the in-process enumerator binary `seqx` (engine E-SEQ)."""
import json
import subprocess
import time

import common


def run_sub(res, sub, tier, extra_args=(), timeout=None, env=None):
    """Run `seqx <sub> --tier <tier>`; feed violations into `res`; return the summary dict.
    A crash of the enumerator (signal / non-zero exit without summary) is a machinery error unless
    `crash_is_violation` handling is done by the caller."""
    cmd = [common.SEQX, sub, "--tier", tier] + list(extra_args)
    t0 = time.time()
    p = subprocess.Popen(cmd, stdout=subprocess.PIPE, stderr=subprocess.PIPE, env=env)
    summary = None
    # hard wall-clock cap (the enumerator has its own stall watchdog; this is the backstop)
    import threading
    cap = timeout or (1800 if tier == "quick" else 6 * 3600)
    killer = threading.Timer(cap, p.kill)
    killer.daemon = True
    killer.start()
    try:
        for line in p.stdout:
            line = line.strip()
            if not line.startswith(b"{"):
                continue
            try:
                r = json.loads(line)
            except Exception:
                continue
            k = r.get("kind")
            if k == "violation":
                res.violation(r["features"], r["what"], r.get("replay", {"engine": "E-SEQ", "sub": sub}))
            elif k == "summary":
                summary = r
            elif k == "progress":
                common.log("[%s] %s" % (sub, r.get("msg")))
        p.wait(timeout=60)
    finally:
        killer.cancel()
        if p.poll() is None:
            p.kill()
    err = p.stderr.read().decode("utf-8", "replace")
    if summary is None:
        raise common.MachineryError("seqx %s ended without a summary (rc=%s): %s" % (sub, p.returncode, err[-800:]))
    common.log("[seqx %s] evaluations=%d violations=%d exhaustive=%s (%.1fs)" % (
        sub, summary["evaluations"], summary["violations"], summary["exhaustive"], time.time() - t0))
    return summary


def merge_summary(res, summary, prefix=""):
    cov = res.coverage
    cov["evaluations"] += summary["evaluations"]
    cov["distinct_nontrivial"] = cov.get("distinct_nontrivial", 0) + summary["distinct_nontrivial"]
    if summary.get("states"):
        cov["states"] = cov.get("states", 0) + summary["states"]
        cov["transitions"] = cov.get("transitions", 0) + summary["transitions"]
    for s_ in summary["samples"]:
        res.sample(s_, limit=8)
    if not summary["exhaustive"]:
        for c in summary["caps"] or ["cap"]:
            res.cap(prefix + c)
    cov["rule"] = (cov.get("rule") + " | " if cov.get("rule") else "") + summary["rule"]
    for k, v in (summary.get("extra") or {}).items():
        cov[prefix + k] = v
