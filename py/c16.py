"""C16 — the reader for a file is chosen from its name alone, for every name. Engine: E-SEQ."""
import subprocess

import common
import seqxdrv

PROP = "C16"


def run(tier, seed, build=True):
    if build:
        common.build_harness(("seqx",))
    res = common.Result(PROP, tier, "exploration", seed)
    s = seqxdrv.run_sub(res, "c16", tier)
    seqxdrv.merge_summary(res, s)
    # very long names: separate process, because a stack overflow cannot be caught
    p = subprocess.run([common.SEQX, "c16-long"], capture_output=True)
    res.count(1)
    if p.returncode != 0 or b"long-ok" not in p.stdout:
        res.violation({"part": "long", "symptom": "crash", "rc": p.returncode},
                      "classification of very long names (<= PATH_MAX bytes) crashed on an 8 MiB stack: %r" % p.stderr[-300:],
                      {"engine": "E-SEQ", "sub": "c16-long"})
    res.assumptions += ["the right-to-left reference classifier is a transcription of the property statement; names with two compression suffixes, "
                        "or with a compression suffix / `tar` as the leftmost component, are outside the enumerated domain (statement is silent on them)"]
    return res.finish()


def replay(path, build=True):
    if build:
        common.build_harness(("seqx",))
    p = subprocess.run([common.SEQX, "c16", "--replay", path], capture_output=True, text=True)
    common.log(p.stdout.strip())
    if p.returncode == 1:
        common.log("VIOLATION property=%s replay=%s" % (PROP, path))
        return common.EXIT_VIOLATION
    return common.EXIT_OK if p.returncode == 0 else common.EXIT_MACHINERY
