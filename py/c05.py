"""C05 — compression and archiving are transparent. Engine: E-CLI over a container-parameter lattice."""
import hashlib
import lzma
import os
import shutil
import subprocess
import tarfile
import zlib

import common
import gen

PROP = "C05"
E = gen.EPOCH_2000


def text_content(size, seed=0, incompressible=False):
    """A text log of exactly `size` bytes (>= 27): ~50-byte messages one second apart, last one padded."""
    out = b""
    i = 0
    while True:
        if incompressible:
            body = hashlib.sha256(b"%d-%d" % (seed, i)).hexdigest().encode()[:40].translate(bytes.maketrans(b"0123456789", b"ghijklmnop"))
        else:
            body = b"message %c%c of the log" % (97 + i % 26, 97 + (i // 26) % 26)
        line = gen.ts0(1000 * (E + i)) + b" " + body + b"\n"
        if len(out) + len(line) > size - 27 and len(out) + len(line) != size:
            # final message: pad to the exact size
            rest = size - len(out)
            if rest < 27:
                # enlarge previous message instead
                out = out[:-1] + b"x" * rest + b"\n"
                return out
            line = gen.ts0(1000 * (E + i)) + b" " + b"z" * (rest - 27) + b"\n"
            return out + line
        out += line
        i += 1
        if len(out) == size:
            return out


def utmp_content(n):
    return gen.utmp_file([(E + i, (i * 7) % 1000000, b"%d" % i) for i in range(n)])


def containers_for(name, data, tier, big):
    """yield (label, filename, bytes, features) for every container variant of one content."""
    n = len(data)
    # --- gzip
    levels = [0, 1, 6, 9] if tier == "thorough" or not big else [0, 6]
    for lv in levels:
        yield ("gz-l%d" % lv, name + ".gz", gen.gz(data, level=lv), {"container": "gz", "variant": "level"})
    if not big:
        for k in ([7, 63, 64, 65, 999, 1000, 1001] if tier == "thorough" else [7, 64, 1001]):
            if k < n:
                yield ("gz-sync%d" % k, name + ".gz", gen.gz(data, level=6, chunks=[k]), {"container": "gz", "variant": "sync-flush"})
        yield ("gz-full64", name + ".gz", gen.gz(data, level=1, chunks=[64], flush=zlib.Z_FULL_FLUSH), {"container": "gz", "variant": "full-flush"})
        yield ("gz-stored-chunks", name + ".gz", gen.gz(data, level=0, chunks=[100]), {"container": "gz", "variant": "stored-chunks"})
        yield ("gz-fname-mtime", name + ".gz", gen.gz(data, level=6, mtime=E + 5, fname=b"orig.log"), {"container": "gz", "variant": "header-fields"})
    # --- bzip2
    for lv in ([1, 9] if tier == "thorough" or not big else [1]):
        yield ("bz2-l%d" % lv, name + ".bz2", gen.bz(data, lv), {"container": "bz2", "variant": "level"})
    # --- xz
    xzv = [(6, lzma.CHECK_CRC64)]
    if not big:
        xzv += [(0, lzma.CHECK_NONE), (0, lzma.CHECK_CRC32)] + ([(6, lzma.CHECK_SHA256)] if tier == "thorough" else [])
    for preset, check in xzv:
        yield ("xz-p%d-c%d" % (preset, check), name + ".xz", gen.xz(data, preset, check),
               {"container": "xz", "variant": "preset/check", "xz_check": {lzma.CHECK_NONE: "none", lzma.CHECK_CRC32: "crc32", lzma.CHECK_CRC64: "crc64", lzma.CHECK_SHA256: "sha256"}[check]})
    # --- lz4: frames of stored blocks with chosen block lengths (the decoder hands data back per block)
    if n > 0:
        ks = [n] + [k for k in ([17, 64, 100, 1000, 7000, 65536] if not big else [7000, 65536]) if k < n]
        for k in ks:
            yield ("lz4-stored%d" % k, name + ".lz4", gen.lz4_frame(data, min(k, 65536), content_size=True),
                   {"container": "lz4", "variant": "stored-blocks", "lz4_single_block": k >= n})
        yield ("lz4-cksum", name + ".lz4", gen.lz4_frame(data, min(n, 65536), content_size=False, block_checksum=True, content_checksum=True),
               {"container": "lz4", "variant": "checksums", "lz4_single_block": n <= 65536})
    # --- tar
    fmts = [("ustar", tarfile.USTAR_FORMAT), ("gnu", tarfile.GNU_FORMAT), ("pax", tarfile.PAX_FORMAT)]
    filler = b"no timestamp in this member\n"
    for fname, fmt in fmts:
        for pos in (["only", "first", "middle", "last"] if not big else ["middle"]):
            members = {"only": [(name, data)], "first": [(name, data), ("zz/other.txt", filler)],
                       "middle": [("aa/other.txt", filler), (name, data), ("zz/other2.txt", filler)],
                       "last": [("aa/other.txt", filler), ("ab/other2.txt", filler), (name, data)]}[pos]
            yield ("tar-%s-%s" % (fname, pos), "arch.tar", gen.tar(members, fmt), {"container": "tar", "variant": fname + "-" + pos})
        if not big and name.endswith(".wtmp"):
            # a member at the top level of the archive whose whole name is the type word
            for bare in ("wtmp", "wtmp.1"):
                yield ("tar-%s-bare-%s" % (fname, bare), "arch.tar", gen.tar([(bare, data)], fmt), {"container": "tar", "variant": fname + "-bare-name"})
        if not big and fname != "ustar":
            longname = "d" * 60 + "/" + "e" * 60 + "/" + name
            yield ("tar-%s-longname" % fname, "arch.tar", gen.tar([("aa/other.txt", filler), (longname, data)], fmt),
                   {"container": "tar", "variant": fname + "-longname"})


def cli_containers(name, data, work):
    """containers produced by the installed command-line compressors (internal multi-block structure)."""
    out = []
    src = os.path.join(work, "cli_src")
    common.write_file(src, data)

    def sh(cmd):
        p = subprocess.run(cmd, stdout=subprocess.PIPE, stderr=subprocess.DEVNULL)
        return p.stdout if p.returncode == 0 else None
    if shutil.which("lz4"):
        for label, flags in [("lz4cli-B4", ["-B4"]), ("lz4cli-B4-BD", ["-B4", "-BD"]), ("lz4cli-B7-l9", ["-B7", "-9"]), ("lz4cli-nocrc", ["--no-frame-crc", "-B5"]),
                             ("lz4cli-contentsize", ["--content-size", "-B4"])]:
            b = sh(["lz4", "-c", "-q"] + flags + [src])
            if b:
                out.append((label, name + ".lz4", b, {"container": "lz4", "variant": "cli-compressed", "lz4_single_block": len(data) <= 65536}))
    if shutil.which("xz"):
        b = sh(["xz", "-c", "-0", "--block-size=4096", src])
        if b:
            out.append(("xzcli-multiblock", name + ".xz", b, {"container": "xz", "variant": "multi-block"}))
    if shutil.which("gzip"):
        b = sh(["gzip", "-c", "-n", "-1", src])
        if b:
            out.append(("gzipcli", name + ".gz", b, {"container": "gz", "variant": "cli"}))
    if shutil.which("bzip2"):
        b = sh(["bzip2", "-c", "-1", src])
        if b:
            out.append(("bzip2cli", name + ".bz2", b, {"container": "bz2", "variant": "cli"}))
    return out


def run(tier, seed, build=True):
    if build:
        common.build_real()
    res = common.Result(PROP, tier, "exploration", seed)
    work = common.scratch_dir(PROP)
    try:
        contents = []   # (label, plain name, bytes, big?)
        sizes = [30, 60, 63, 64, 65, 128, 191, 193, 999, 1000, 1001, 2000, 2999, 3001, 2560, 40000]
        if tier == "quick":
            sizes = [30, 63, 64, 65, 193, 1000, 1001, 3001, 40000]
        for sz in sizes:
            contents.append(("text%d" % sz, "t.log", text_content(sz), sz >= 40000))
        contents.append(("text-incompressible-300k", "t.log", text_content(300000, 1, True), True))
        if tier == "thorough":
            contents.append(("text-incompressible-1m", "t.log", text_content(1100000, 2, True), True))
        for nrec in ([1, 2, 6, 170] if tier == "quick" else [1, 2, 3, 6, 11, 170, 600]):
            contents.append(("utmp%d" % nrec, "u.wtmp", utmp_content(nrec), nrec >= 170))
        bszs = [64, 1000, 65536] if tier == "quick" else [64, 100, 1000, 4096, 65536, 0x10001]
        cases = []
        ncont = 0
        for clabel, pname, data, big in contents:
            cdir = os.path.join(work, clabel)
            os.makedirs(cdir)
            common.write_file(os.path.join(cdir, pname), data)
            variants = list(containers_for(pname, data, tier, big)) + (cli_containers(pname, data, work) if len(data) >= 1000 else [])
            for vlabel, fname, blob, feats in variants:
                ncont += 1
                vdir = os.path.join(cdir, vlabel)
                os.makedirs(vdir)
                common.write_file(os.path.join(vdir, fname), blob)
                istext = pname.endswith(".log")
                # windows: none, A inside, B inside (text: seconds from E; utmp: same)
                nmsg = data.count(b"\n") if istext else len(data) // gen.UTMP_SZ
                mid = E + max(0, nmsg // 2)
                y, m, d, h, mi, s = gen.civil(mid)
                midarg = "%04d%02d%02dT%02d%02d%02d" % (y, m, d, h, mi, s)
                wins = [[], ["-a", midarg], ["-b", midarg]] if (tier == "thorough" or not big) else [[], ["-a", midarg]]
                for bsz in bszs:
                    if big and tier == "quick" and bsz == 64 and len(data) > 100000:
                        continue
                    for w in wins:
                        cases.append((clabel, pname, vlabel, fname, feats, bsz, w, len(data)))
        common.log("[C05] %d contents, %d containers, %d container runs" % (len(contents), ncont, len(cases)))
        # plain baselines
        basekeys = sorted({(c[0], c[1], c[5], tuple(c[6])) for c in cases})

        # ---- a content whose size needs all four bytes of a 32-bit size field (gzip ISIZE, lz4 content size): 16 MiB + 4097 bytes
        bigsz = 0x01001001
        nl = bigsz // 64 - 1
        blines = [gen.ts0(1000 * (E + i)) + b" big %07d " % i + b"." * 25 + b"\n" for i in range(nl)]
        assert all(len(x) == 64 for x in blines[:3])
        bigdata = b"".join(blines)
        bigdata += gen.ts0(1000 * (E + nl)) + b" " + b"z" * (bigsz - len(bigdata) - 27) + b"\n"
        assert len(bigdata) == bigsz
        bdir = os.path.join(work, "big16m")
        common.write_file(os.path.join(bdir, "t.log"), bigdata)
        bigvars = [("gz-l1", "t.log.gz", gen.gz(bigdata, 1))]
        if tier == "thorough":
            bigvars += [("bz2", "t.log.bz2", gen.bz(bigdata, 1)), ("xz", "t.log.xz", gen.xz(bigdata, 0)),
                        ("lz4-cs", "t.log.lz4", gen.lz4_frame(bigdata, 65536, content_size=True)), ("tar", "t.tar", gen.tar([("t.log", bigdata)]))]
        y, m, d, h, mi, s_ = gen.civil(E + nl - 5)
        latearg = "%04d%02d%02dT%02d%02d%02d" % (y, m, d, h, mi, s_)
        for w in ([], ["-a", latearg]):
            rp = common.run_s4(["--color", "never", "-t", "+00:00"] + w + ["t.log"], cwd=bdir, timeout=300)
            if rp.timed_out or rp.rc not in (0, 1) or not rp.out:
                raise common.MachineryError("plain baseline of the 16 MiB content failed: rc=%s" % rp.rc)
            for vlabel, fname, blob in bigvars:
                common.write_file(os.path.join(bdir, vlabel, fname), blob)
                r = common.run_s4(["--color", "never", "-t", "+00:00"] + w + [fname], cwd=os.path.join(bdir, vlabel), timeout=300)
                res.count()
                res.distinct(("big16m", vlabel, tuple(w)))
                if r.timed_out or r.rc not in (0, 1) or r.out != rp.out:
                    res.violation({"content": "text-16MiB+4097", "container": vlabel, "symptom": "crash" if (r.timed_out or r.rc not in (0, 1)) else ("empty" if not r.out else "bytes-differ"),
                                   "window": bool(w)},
                                  "a %d-byte log stored as %s prints %d bytes, the plain file %d bytes (window %s)" % (bigsz, fname, len(r.out), len(rp.out), w),
                                  {"engine": "E-CLI", "args": ["--color", "never", "-t", "+00:00"] + w + [fname], "content": "text-16MiB+4097", "container": vlabel})
                os.remove(os.path.join(bdir, vlabel, fname))
        shutil.rmtree(bdir, ignore_errors=True)
        del bigdata, blines

        def run_plain(k):
            clabel, pname, bsz, w = k
            r = common.run_s4(["--color", "never", "-t", "+00:00", "--blocksz", str(bsz)] + list(w) + [pname], cwd=os.path.join(work, clabel), timeout=120)
            return k, r
        base = {}
        for k, r in common.pmap(run_plain, basekeys):
            if r.timed_out or r.rc not in (0, 1):
                raise common.MachineryError("plain baseline failed: %s rc=%s" % (k, r.rc))
            base[k] = r

        def run_case(c):
            clabel, pname, vlabel, fname, feats, bsz, w, n = c
            r = common.run_s4(["--color", "never", "-t", "+00:00", "--blocksz", str(bsz)] + list(w) + [fname], cwd=os.path.join(work, clabel, vlabel), timeout=120)
            return c, r
        nontrivial = 0
        for c, r in common.pmap(run_case, cases):
            clabel, pname, vlabel, fname, feats, bsz, w, n = c
            res.count()
            b = base[(clabel, pname, bsz, tuple(w))]
            if b.out:
                nontrivial += 1
            res.distinct((clabel, vlabel))
            if r.timed_out or r.rc not in (0, 1) or r.out != b.out or r.rc != b.rc:
                if r.timed_out or r.rc not in (0, 1):
                    sym = "crash"
                elif r.out != b.out:
                    sym = "empty-output" if not r.out else "bytes-differ"
                else:
                    sym = "exit-status-differs"
                f = dict(feats)
                f.update({"symptom": sym, "content": "text" if pname.endswith(".log") else "utmp",
                          "plain_output_empty": not b.out})
                if feats["container"] == "lz4":
                    f["blocksz_ge_content"] = bsz >= n
                res.violation(f, "%s as %s at --blocksz %d %s: stdout %d bytes vs %d bytes for the plain file (rc %s vs %s)" % (
                    clabel, vlabel, bsz, " ".join(w), len(r.out), len(b.out), r.rc, b.rc),
                    {"engine": "E-CLI", "args": ["--color", "never", "-t", "+00:00", "--blocksz", str(bsz)] + list(w) + [fname],
                     "files": {fname: common.b64(open(os.path.join(work, clabel, vlabel, fname), "rb").read())} if n < 200000 else {},
                     "content": clabel, "container": vlabel, "expected_stdout": common.b64(b.out) if len(b.out) < 300000 else ""})
        res.coverage["rule"] = ("contents (text logs of sizes around block multiples, 40 KB, 300 KB incompressible; utmp record files) x container variants "
                                "(gzip levels/stored/sync+full flush chunkings/header fields; bzip2 levels; xz presets/checks/multi-block; lz4 frames with chosen block "
                                "lengths, checksums, CLI-compressed linked/independent blocks; tar ustar/gnu/pax x member position x long member names) x block sizes x windows; "
                                "oracle: byte-identical stdout and exit status vs the same bytes stored plain. distinct_nontrivial = distinct (content, container) pairs")
        res.coverage["runs_with_nonempty_plain_output"] = nontrivial
        res.coverage["containers"] = ncont
        res.sample({"content": "text1001", "container": "gz-sync64", "argv": ["--color", "never", "-t", "+00:00", "--blocksz", "1000", "t.log.gz"]})
        res.sample({"content": "utmp6", "container": "tar-pax-middle", "argv": ["--color", "never", "-t", "+00:00", "--blocksz", "64", "arch.tar"]})
    finally:
        shutil.rmtree(work, ignore_errors=True)
    res.assumptions += ["containers are single-stream and valid; python's zlib/bz2/lzma/tarfile and the installed lz4/xz/gzip/bzip2 CLIs are trusted as writers",
                        "journal and evtx containers are compared in C09/C10"]
    return res.finish()


def replay(path, build=True):
    import json
    import c02
    if build:
        common.build_real()
    r = json.load(open(path))["replay"]
    if not r.get("files"):
        common.log("replay file carries no inline container (content too large); re-run the check")
        return common.EXIT_MACHINERY
    return c02.common_replay_cli(path, r, PROP)
