"""C01 — merged output chronological with a deterministic tie rule. Engines: E-SCHED (+ input enumeration)."""
import itertools
import os
import re
import shutil

import common
import gen
import oracle
import sched
import c06

PROP = "C01"
E_MS = gen.EPOCH_2000 * 1000
POLICIES = ["main-first", "workers-first", "workers-reverse"]
OFFS = [60, 0, -270, 330]


def source_bytes(kind, seq, pos):
    """seq: instants in MICROseconds after 2000-01-01T00:00:00Z.
    kind T: bracketed text (ms resolution); O: text with explicit, differing UTC offsets and a 6-digit
    fraction; U: Linux utmp records (tv_sec, tv_usec)."""
    if kind == "T":
        assert all(t % 1000 == 0 for t in seq)
        return "s%d.log" % pos, gen.text_log([(E_MS + t // 1000, b"m%d-%d" % (pos, j)) for j, t in enumerate(seq)])
    if kind == "O":
        lines = [gen.ts_iso_off(E_MS + t // 1000, OFFS[(j + pos) % len(OFFS)], us=t % 1000000) + b" o%d-%d" % (pos, j) for j, t in enumerate(seq)]
        return "s%d.txt" % pos, b"\n".join(lines) + b"\n"
    if kind == "S":
        # text with 7 fractional digits (100 ns ticks), UTC offset written
        lines = []
        for j, t in enumerate(seq):
            base = gen.ts_iso_off(E_MS + t // 1000, 0, us=t % 1000000)      # ...ss.uuuuuu +0000
            stamp, off = base.rsplit(b" ", 1)
            lines.append(stamp + b"0 " + off + b" n%d-%d" % (pos, j))
        return "s%d.txt" % pos, b"\n".join(lines) + b"\n"
    if kind == "L":
        # long multi-line messages: two lines of 1200 bytes (more than the printer's 2056-byte buffer in total)
        assert all(t % 1000 == 0 for t in seq)
        return "s%d.log" % pos, gen.text_log([(E_MS + t // 1000, b"L%d-%d " % (pos, j) + b"l" * 1200, [b"c" * 1200]) for j, t in enumerate(seq)])
    if kind == "U":
        return "s%d.wtmp" % pos, gen.utmp_file([(gen.EPOCH_2000 + t // 1000000, t % 1000000, b"%d-%d" % (pos, j)) for j, t in enumerate(seq)])
    raise ValueError(kind)


def truth_key(t_us):
    """the -u -d %Y%m%dT%H%M%S%.9f rendering of 2000-01-01T00:00:00Z + t_us microseconds (all instants lie inside that day)"""
    sec, us = divmod(t_us, 1000000)
    return b"20000101T%02d%02d%02d.%06d000" % (sec // 3600, sec // 60 % 60, sec % 60, us)


def nondecreasing(dom, maxlen, minlen=1):
    for k in range(minlen, maxlen + 1):
        for c in itertools.combinations_with_replacement(dom, k):
            yield list(c)


class Corpus:
    def __init__(self, work):
        self.work = work
        self.cache = {}
        self.bad = []

    def source(self, kind, seq, pos):
        """returns (relpath, basename, per-source message list)"""
        key = (kind, tuple(seq), pos)
        if key not in self.cache:
            name, data = source_bytes(kind, seq, pos)
            rel = os.path.join("p%d" % pos, "%s_%s" % (kind, "_".join(str(x) for x in seq)), name)
            common.write_file(os.path.join(self.work, rel), data)
            msgs, _tail, _r = oracle.single_source_messages(rel, self.work, binary=common.S4V)
            # generator truth: the instants the single-source run attributes are the instants written (any order for record files)
            want = sorted(truth_key(t) for t in seq)
            got = sorted(k for k, _ in msgs)
            if kind == "U":
                # record files with exactly equal time values lose records: that is C08's known finding
                # (equal-times-overwrite) and is judged there; here only the instants themselves are compared
                want, got = sorted(set(want)), sorted(set(got))
            if want != got:
                self.bad.append((kind, list(seq), pos, want, got, rel))
            elif kind != "U":
                # the chunks of the single-source run, prefixes removed, are the file (every message whole and in place)
                pref = re.compile(rb"^" + re.escape(name.encode()) + rb":\d{8}T\d{6}\.\d{9}:", re.M)
                plain = b"".join(pref.sub(b"", c) for _, c in msgs)
                if plain != data:
                    self.bad.append((kind, list(seq), pos, [b"<file bytes: %d>" % len(data)], [b"<printed bytes without prefixes: %d>" % len(plain)], rel))
            self.cache[key] = (rel, name, msgs, data)
        return self.cache[key]


def run(tier, seed, build=True):
    if build:
        common.build_harness(("s4v",))
    res = common.Result(PROP, tier, "model_checking", seed)
    work = common.scratch_dir(PROP)
    corpus = Corpus(work)
    try:
        # ---- part A: input enumeration under three canonical schedules ---------------------------------
        # instants in microseconds: ties, 1 ms neighbours and (for kinds that can express them) sub-millisecond neighbours
        dom = [0, 1000000, 1001000] if tier == "quick" else [0, 999000, 1000000, 1001000, 2000000]
        sub = [0, 1000000, 1000400, 1001000] if tier == "quick" else [0, 999000, 1000000, 1000001, 1000400, 1001000]
        seqs = list(nondecreasing(dom, 3))
        useqs = list(nondecreasing(sub, 2)) + list(nondecreasing(dom, 3, 3)) + [[1000000, 0], [1001000, 1000400, 0], [1000400, 0, 1001000]]   # record files: stored out of order too
        # (the ISO notation costs ~60 ms per run: lazily compiled patterns) -> fewer sequences in the quick tier
        oseqs = list(nondecreasing(sub, 2)) if tier != "quick" else [[x] for x in sub] + [[0, 1000000], [1000000, 1000400], [1000400, 1000400]]
        sseqs = [[100000], [100000, 600000], [0, 100000, 1000000]]
        kindseqs = {"T": seqs, "U": useqs, "O": oseqs, "S": sseqs}
        cases = []
        kind_pairs = [("T", "T"), ("T", "U"), ("U", "T"), ("U", "U"), ("O", "T"), ("T", "O"), ("O", "O")]
        # 7-digit fractions beside millisecond stamps inside the same second
        s_partner = [[0, 1000000], [500000, 1000000]]
        for ss in sseqs:
            for sp in s_partner:
                pass
        for ka, kb in kind_pairs:
            for sa in kindseqs[ka]:
                for sb in kindseqs[kb]:
                    cases.append([(ka, sa), (kb, sb)])
        for ss in sseqs:
            for sp in ([0, 1000000], [500000, 1000000], [200000]):
                cases.append([("S", ss), ("T", sp)])
                cases.append([("T", sp), ("S", ss)])
        # long messages interleaved with another source's (the tail of a message may not be held back)
        for lseq in ([0, 1000000], [0, 1000000, 2000000]):
            for tseq in ([500000, 1500000], [0, 1000000], [1500000]):
                cases.append([("L", lseq), ("T", tseq)])
                cases.append([("T", tseq), ("L", lseq)])
        cases.append([("L", [0, 1000000]), ("L", [500000, 1000000])])
        for k in ("T", "U", "O", "S"):
            for s_ in kindseqs[k]:
                cases.append([(k, s_)])
        if tier == "thorough":
            small = list(nondecreasing([0, 1000000], 2))
            for ka, kb, kc in itertools.product("TU", repeat=3):
                for sa in small:
                    for sb in small:
                        for sc in small:
                            cases.append([(ka, sa), (kb, sb), (kc, sc)])
        # windowed variants (a source may then contribute 0 messages)
        wcases = []
        for ka, kb in [("T", "T"), ("T", "U"), ("U", "U")]:
            for sa in seqs[:9]:
                for sb in seqs[:9]:
                    wcases.append([(ka, sa), (kb, sb)])
        common.log("[C01] part A: %d source-set cases x %d schedules (+%d windowed)" % (len(cases), len(POLICIES), len(wcases)))

        # prepare sources sequentially-parallel
        need = set()
        for case in cases + wcases:
            for pos, (k, s_) in enumerate(case):
                need.add((k, tuple(s_), pos))
        list(common.pmap(lambda ks: corpus.source(ks[0], list(ks[1]), ks[2]), sorted(need)))

        for kind, seq, pos, want, got, rel in corpus.bad:
            res.violation({"part": "A0", "symptom": "single-source-instants-differ-from-generator", "kind": kind},
                          "source %s (kind %s, instants %s us): a run on it alone attributes %s, written were %s" % (rel, kind, seq, got[:4], want[:4]),
                          {"engine": "E-CLI", "args": list(oracle.DEC_ARGS) + ["-t", "+00:00", os.path.basename(rel)],
                           "files": {os.path.basename(rel): common.b64(source_bytes(kind, seq, pos)[1])}})

        def run_case(item):
            case, extra, policy = item
            srcs = [corpus.source(k, s_, pos) for pos, (k, s_) in enumerate(case)]
            if extra:
                per = [oracle.single_source_messages(rel, work, extra=extra, binary=common.S4V)[0] for rel, _, _, _ in srcs]
            else:
                per = [m for _, _, m, _ in srcs]
            expected = oracle.expected_output(per)
            cfg = sched.Config("A", work, list(oracle.DEC_ARGS) + ["-t", "+00:00"] + list(extra) + [rel for rel, _, _, _ in srcs],
                               [n for _, n, _, _ in srcs])
            x = cfg.run([], policy=policy)
            return case, extra, policy, x, expected, per, srcs

        def pols(c):
            return POLICIES[:1] if (tier == "quick" and any(k in "OS" for k, _ in c)) else POLICIES
        items = [(c, [], p) for c in cases for p in pols(c)] + [(c, ["-a", "20000101T000001", "-b", "20000101T000001.000"], p) for c in wcases for p in POLICIES[:2]]
        nA = 0
        ties_seen = 0
        for case, extra, policy, x, expected, per, srcs in common.pmap_unordered(run_case, items):
            nA += 1
            res.count()
            merged = oracle.reference_merge(per)
            dts = [d for _, d, _ in merged]
            cross_tie = any(merged[i][1] == merged[i + 1][1] and merged[i][0] != merged[i + 1][0] for i in range(len(merged) - 1))
            if cross_tie:
                ties_seen += 1
            if len(merged) >= 2:
                res.distinct(("A", str(case), tuple(extra)))
            bad = None
            oc = x.trace.get("outcome") if x.trace else "no-trace"
            if oc != "completed":
                bad = ({"part": "A", "symptom": oc}, "scheduler outcome %s (%s)" % (oc, (x.trace or {}).get("what", x.err[-200:])))
            elif x.out != expected:
                # classify: order vs content
                got_parts = sorted(x.out.split(oracle.SEPB))
                exp_parts = sorted(expected.split(oracle.SEPB))
                sym = "order-differs" if got_parts == exp_parts else "content-differs"
                bad = ({"part": "A", "symptom": sym, "cross_source_tie": cross_tie, "kinds": "".join(k for k, _ in case)},
                       "merged stdout differs from the reference merge (%s)" % sym)
            if bad:
                res.violation(bad[0], bad[1] + " case=%s policy=%s extra=%s" % (case, policy, extra),
                              {"engine": "E-SCHED", "args": list(oracle.DEC_ARGS) + ["-t", "+00:00"] + list(extra) + [os.path.basename(rel) for rel, _, _, _ in srcs],
                               "sources": [n for _, n, _, _ in srcs], "files": {n: common.b64(d) for _, n, _, d in srcs},
                               "choices": x.choices, "policy": policy, "expected_stdout": common.b64(expected)})
            if nA <= 3:
                res.sample({"part": "A", "case": case, "policy": policy, "extra": extra, "n_messages": len(merged), "sorted": dts == sorted(dts)})
        common.log("[C01] part A done: %d executions, %d with a cross-source tie" % (nA, ties_seen))
        if ties_seen < 10:
            raise common.MachineryError("vacuous: hardly any cross-source ties generated")

        # ---- part B: every schedule for tie-heavy configurations ------------------------------------------
        B = {
            "UU": [("U", [0, 1000000]), ("U", [0, 1000000])],
            "TT": [("T", [0, 1000000, 1000000]), ("T", [1000000, 1000000])],
            "TU": [("T", [1000000, 1000000]), ("U", [1000000, 1000400])],
            "UT": [("U", [1000000, 0]), ("T", [0, 1000000])],
        }
        if tier == "thorough":
            B["UUU"] = [("U", [1000000]), ("U", [1000000]), ("U", [1000000])]
            B["TUT"] = [("T", [0, 1000000]), ("U", [1000000]), ("T", [1000000])]
            B["TTT2"] = [("T", [0, 1000000]), ("T", [0, 1000000]), ("T", [1000000])]
        tot_states = tot_trans = tot_exec = 0
        per_cfg = {}
        for name, case in B.items():
            srcs = [corpus.source(k, s_, pos) for pos, (k, s_) in enumerate(case)]
            d = os.path.join(work, "B_" + name)
            os.makedirs(d)
            for _, n, _, data in srcs:
                common.write_file(os.path.join(d, n), data)
            expected = oracle.expected_output([m for _, _, m, _ in srcs])
            cfg = sched.Config("B" + name, d, list(oracle.DEC_ARGS) + ["-t", "+00:00"] + [n for _, n, _, _ in srcs], [n for _, n, _, _ in srcs])
            judge = c06.make_judge(expected, 0)
            budget = (30000, 40) if tier == "quick" else (500000, 1800)
            try:
                st, viols = sched.explore(cfg, judge, mode="pruned", max_execs=budget[0], max_wall=budget[1])
            except common.MachineryError as e:
                res.machinery.append(str(e))
                continue
            common.log("[C01] part B %-5s %s" % (name, st.as_dict()))
            per_cfg[name] = st.as_dict()
            tot_states += len(st.states)
            tot_trans += st.transitions
            tot_exec += st.executions
            res.count(st.executions)
            for s_ in st.states:
                res.distinct(("B", name, s_))
            if not st.exhausted:
                res.cap("part B %s: %s" % (name, st.cap))
            for feats, what, choices in viols:
                res.violation(dict(feats, part="B", config=name), "%s [all-schedules config %s = %s]" % (what, name, case),
                              {"engine": "E-SCHED", "args": cfg.args, "sources": cfg.sources, "files": {n: common.b64(dd) for _, n, _, dd in srcs},
                               "choices": choices, "expected_stdout": common.b64(expected)})
        res.sample({"part": "B", "configs": {k: str(v) for k, v in B.items()}})

        # ---- part C: the other kinds of source (compressed, archived, journal, event log) beside text with tied instants
        import samples
        cdir = os.path.join(work, "C")
        os.makedirs(cdir)
        csets = []
        tdata = source_bytes("T", [0, 1000000, 1000000], 0)[1]
        common.write_file(os.path.join(cdir, "z.log.gz"), gen.gz(tdata))
        common.write_file(os.path.join(cdir, "t.tar"), gen.tar([("m.log", source_bytes("T", [0, 1000000], 1)[1])]))
        common.write_file(os.path.join(cdir, "u.wtmp"), source_bytes("U", [0, 1000000, 1000400], 2)[1])
        common.write_file(os.path.join(cdir, "p.log"), source_bytes("T", [1000000, 1001000], 3)[1])
        csets.append(["z.log.gz", "t.tar", "u.wtmp", "p.log"])
        csets.append(["p.log", "u.wtmp", "t.tar", "z.log.gz"])
        if samples.journal(cdir, "u3", "j.journal"):
            # text lines at exactly the journal's entry instants (microseconds), and one in between
            jm = oracle.single_source_messages("j.journal", cdir, binary=common.S4V)[0]
            import c13
            us = sorted({c13.key_to_ns(k) // 1000 for k, _ in jm})
            rel = [u - E_MS * 1000 for u in us]
            lines = [gen.ts_iso_off(u // 1000, OFFS[i % len(OFFS)], us=u % 1000000) + b" tie-with-journal %d" % i for i, u in enumerate(us)]
            common.write_file(os.path.join(cdir, "k.txt"), b"\n".join(lines) + b"\n")
            csets.append(["j.journal", "k.txt"])
            csets.append(["k.txt", "j.journal"])
            if tier == "thorough" and samples.evtx(cdir, "pnp", "e.evtx"):
                em = oracle.single_source_messages("e.evtx", cdir, binary=common.S4V)[0]
                eus = sorted({c13.key_to_ns(k) // 1000 for k, _ in em})[:40]
                elines = [gen.ts_iso_off(u // 1000, 0, us=u % 1000000) + b" tie-with-evtx %d" % i for i, u in enumerate(eus)]
                common.write_file(os.path.join(cdir, "v.txt"), b"\n".join(elines) + b"\n")
                csets.append(["e.evtx", "v.txt"])
                csets.append(["v.txt", "e.evtx"])
        nC = 0
        for names in csets:
            per = [oracle.single_source_messages(n, cdir, binary=common.S4V)[0] for n in names]
            expected = oracle.expected_output(per)
            for pol in POLICIES:
                srcs = []
                for n in names:
                    srcs.append("t.tar|m.log" if n == "t.tar" else n)
                cfg = sched.Config("C", cdir, list(oracle.DEC_ARGS) + ["-t", "+00:00"] + names, srcs, exec_timeout=120)
                x = cfg.run([], policy=pol)
                res.count()
                nC += 1
                oc = x.trace.get("outcome") if x.trace else "no-trace"
                if oc != "completed" or x.out != expected:
                    res.violation({"part": "C", "symptom": oc if oc != "completed" else "order-or-content-differs", "kinds": ",".join(n.rsplit(".", 1)[-1] for n in names)},
                                  "sources %s (policy %s): merged stdout differs from the reference merge" % (names, pol),
                                  {"engine": "E-CLI", "args": cfg.args, "note": "part C: files are rebuilt by the check (journal/evtx samples)"})
            res.distinct(("C", tuple(names)))
        res.coverage["part_C_executions"] = nC

        # ---- part D: a walked directory lists sources in sorted path order ------------------------------------
        dd = os.path.join(work, "D", "dir")
        os.makedirs(os.path.join(dd, "sub"))
        files = [("b.wtmp", "U", [0, 1000000], 0), ("a.wtmp", "U", [0, 1000000], 1), ("sub/c.log", "T", [0, 1000000], 2)]
        per = {}
        for rel, k, s_, pos in files:
            _n, data = source_bytes(k, s_, pos)
            common.write_file(os.path.join(dd, rel), data)
        order = sorted(rel for rel, _, _, _ in files)
        for rel in order:
            per[rel] = oracle.single_source_messages(os.path.join("dir", rel), os.path.join(work, "D"), binary=common.S4V)[0]
        expected = oracle.expected_output([per[r] for r in order])
        for pol in POLICIES:
            cfg = sched.Config("D", os.path.join(work, "D"), list(oracle.DEC_ARGS) + ["-t", "+00:00", "dir"], [os.path.basename(r) for r in order])
            x = cfg.run([], policy=pol)
            res.count()
            oc = x.trace.get("outcome") if x.trace else "no-trace"
            if oc != "completed" or x.out != expected:
                res.violation({"part": "D", "symptom": oc if oc != "completed" else "order-differs"},
                              "walked directory: merged output is not the merge in sorted path order %s (policy %s)" % (order, pol),
                              {"engine": "E-CLI", "args": cfg.args, "tree": {rel: common.b64(source_bytes(k, s_, pos)[1]) for rel, k, s_, pos in files}})
        res.distinct(("D", "dir"))
        # paths listed on stdin ('-') take the position of the '-' in the tie order
        common.write_file(os.path.join(work, "D", "a.wtmp"), source_bytes("U", [0, 1000000], 0)[1])
        common.write_file(os.path.join(work, "D", "m1.wtmp"), source_bytes("U", [0, 1000000], 1)[1])
        common.write_file(os.path.join(work, "D", "m2.log"), source_bytes("T", [0, 1000000], 2)[1])
        common.write_file(os.path.join(work, "D", "z.wtmp"), source_bytes("U", [0, 1000000], 3)[1])
        order2 = ["a.wtmp", "m1.wtmp", "m2.log", "z.wtmp"]
        per2 = [oracle.single_source_messages(n, os.path.join(work, "D"), binary=common.S4V)[0] for n in order2]
        exp2 = oracle.expected_output(per2)
        for argv, sin in ((["a.wtmp", "-", "z.wtmp"], b"m1.wtmp\nm2.log\n"), (["-", "m2.log", "z.wtmp"], b"a.wtmp\nm1.wtmp\n"), (["a.wtmp", "m1.wtmp", "m2.log", "-"], b"z.wtmp\n")):
            r = common.run_s4(list(oracle.DEC_ARGS) + ["-t", "+00:00"] + argv, cwd=os.path.join(work, "D"), stdin=sin, binary=common.S4V)
            res.count()
            if r.out != exp2:
                res.violation({"part": "D", "symptom": "stdin-order-differs", "dash_last": argv[-1] == "-"},
                              "`s4 %s` with stdin %r: tie order is not the order the sources were named" % (" ".join(argv), sin),
                              {"engine": "E-CLI", "args": list(oracle.DEC_ARGS) + argv, "stdin": sin.decode()})
    finally:
        shutil.rmtree(work, ignore_errors=True)
    res.coverage.update({
        "states": tot_states, "transitions": tot_trans, "traces_validated_against_impl": tot_exec + nA,
        "rule": "part A: every source-set case of the grammar (kinds T/O/U x non-decreasing timestamp sequences over a small domain with ties and 1 ms neighbours, every argument order) under three canonical schedules; "
                "part B: every schedule of tie-heavy configurations (fingerprint-pruned DFS); part D: walked directory. "
                "distinct_nontrivial = distinct cases with >=2 merged messages + distinct scheduler states",
        "part_A_executions": nA, "part_A_cases_with_cross_source_tie": ties_seen, "part_B": per_cfg,
    })
    res.assumptions += ["per-source message lists are taken from single-source runs of the same build (differential oracle)",
                        "scheduling points are channel operations; see C06"]
    return res.finish()


def replay(path, build=True):
    return c06.replay(path, build)
