"""C12 — the read block size never changes what is printed. Shares C02's enumeration; differential oracle."""
import c02

PROP = "C12"


def run(tier, seed, build=True):
    return c02.run(tier, seed, build, prop=PROP, sub="c12")


def replay(path, build=True):
    return c02.replay(path, build, prop=PROP, sub="c12")
