"""Input generators: text logs, Linux x86-64 utmp records, containers (gz/bz2/xz/lz4/tar)."""
import bz2
import gzip
import io
import lzma
import struct
import tarfile
import zlib

EPOCH_2000 = 946684800  # 2000-01-01T00:00:00Z


def civil(epoch):
    """epoch seconds (UTC) -> (Y,M,D,h,m,s) by own arithmetic (no datetime module)."""
    days, rem = divmod(epoch, 86400)
    h, rem = divmod(rem, 3600)
    mi, s = divmod(rem, 60)
    z = days + 719468
    era = z // 146097
    doe = z - era * 146097
    yoe = (doe - doe // 1460 + doe // 36524 - doe // 146096) // 365
    y = yoe + era * 400
    doy = doe - (365 * yoe + yoe // 4 - yoe // 100)
    mp = (5 * doy + 2) // 153
    d = doy - (153 * mp + 2) // 5 + 1
    m = mp + 3 if mp < 10 else mp - 9
    if m <= 2:
        y += 1
    return y, m, d, h, mi, s


def days_from_civil(y, m, d):
    y -= m <= 2
    era = y // 400
    yoe = y - era * 400
    doy = (153 * (m + (-3 if m > 2 else 9)) + 2) // 5 + d - 1
    doe = yoe * 365 + yoe // 4 - yoe // 100 + doy
    return era * 146097 + doe - 719468


def ts0(epoch_ms):
    """Built-in pattern with bracketed `YYYY/MM/DD hh:mm:ss.mmm` (cheap to match), UTC assumed via -t."""
    y, m, d, h, mi, s = civil(epoch_ms // 1000)
    return b"[%04d/%02d/%02d %02d:%02d:%02d.%03d]" % (y, m, d, h, mi, s, epoch_ms % 1000)


def ts_iso_off(epoch_ms, off_min, us=None):
    """`YYYY-MM-DD hh:mm:ss.mmm +hhmm` rendered in the given offset (same instant);
    with `us` (microseconds within the second) a 6-digit fraction is written instead."""
    loc = epoch_ms // 1000 + off_min * 60
    y, m, d, h, mi, s = civil(loc)
    sign = b"+" if off_min >= 0 else b"-"
    a = abs(off_min)
    if us is not None:
        return b"%04d-%02d-%02d %02d:%02d:%02d.%06d %s%02d%02d" % (y, m, d, h, mi, s, us, sign, a // 60, a % 60)
    return b"%04d-%02d-%02d %02d:%02d:%02d.%03d %s%02d%02d" % (y, m, d, h, mi, s, epoch_ms % 1000, sign, a // 60, a % 60)


def text_log(msgs, final_newline=True):
    """msgs: list of (epoch_ms, body bytes[, continuation lines list]) -> bytes (pattern ts0)."""
    out = []
    for m in msgs:
        t, body = m[0], m[1]
        cont = m[2] if len(m) > 2 else []
        out.append(ts0(t) + b" " + body)
        out.extend(cont)
    data = b"\n".join(out)
    if final_newline and out:
        data += b"\n"
    return data


# -- Linux x86_64 `struct utmp` (384 bytes) ---------------------------------------------------

UTMP_SZ = 384


def utmp_record(tv_sec, tv_usec=0, ut_type=7, pid=1000, line=b"pts/0", id_=b"ts/0", user=b"user", host=b"host",
                session=0, addr=(0, 0, 0, 0), e_term=0, e_exit=0):
    rec = struct.pack("<hxxi32s4s32s256shhiii4i20s", ut_type, pid, line, id_, user, host, e_term, e_exit, session,
                      tv_sec, tv_usec, addr[0], addr[1], addr[2], addr[3], b"")
    assert len(rec) == UTMP_SZ, len(rec)
    return rec


def utmp_file(recs):
    """recs: list of (tv_sec, tv_usec, token) -> bytes; token goes into user/line/pid so each record is unique."""
    out = b""
    for i, r in enumerate(recs):
        sec, usec, tok = r
        out += utmp_record(sec, usec, pid=2000 + i, line=b"pts/%d" % i, id_=b"t%03d" % i, user=b"u%s" % tok, host=b"h%s.example" % tok)
    return out


# -- containers ---------------------------------------------------------------------------------

def gz(data, level=6, mtime=0, fname=None, chunks=None, flush=zlib.Z_SYNC_FLUSH):
    """gzip single member; `chunks` = list of chunk lengths after each of which a flush is emitted."""
    co = zlib.compressobj(level, zlib.DEFLATED, -15)
    body = b""
    if chunks:
        pos = 0
        i = 0
        while pos < len(data):
            n = chunks[i % len(chunks)]
            i += 1
            body += co.compress(data[pos:pos + n]) + co.flush(flush)
            pos += n
        body += co.flush()
    else:
        body = co.compress(data) + co.flush()
    flg = 0x08 if fname else 0
    hdr = b"\x1f\x8b\x08" + bytes([flg]) + struct.pack("<I", mtime) + b"\x00\x03"
    if fname:
        hdr += fname + b"\x00"
    return hdr + body + struct.pack("<II", zlib.crc32(data) & 0xFFFFFFFF, len(data) & 0xFFFFFFFF)


def bz(data, level=9):
    return bz2.compress(data, level)


def xz(data, preset=6, check=lzma.CHECK_CRC64):
    return lzma.compress(data, format=lzma.FORMAT_XZ, preset=preset, check=check)


def _xxh32(data, seed=0):
    P1, P2, P3, P4, P5 = 2654435761, 2246822519, 3266489917, 668265263, 374761393
    M = 0xFFFFFFFF

    def rotl(x, r):
        return ((x << r) | (x >> (32 - r))) & M
    n = len(data)
    i = 0
    if n >= 16:
        v1 = (seed + P1 + P2) & M
        v2 = (seed + P2) & M
        v3 = seed & M
        v4 = (seed - P1) & M
        while i <= n - 16:
            for k in range(4):
                w = struct.unpack_from("<I", data, i + 4 * k)[0]
                v = (v1, v2, v3, v4)[k]
                v = (v + w * P2) & M
                v = rotl(v, 13)
                v = (v * P1) & M
                if k == 0:
                    v1 = v
                elif k == 1:
                    v2 = v
                elif k == 2:
                    v3 = v
                else:
                    v4 = v
            i += 16
        h = (rotl(v1, 1) + rotl(v2, 7) + rotl(v3, 12) + rotl(v4, 18)) & M
    else:
        h = (seed + P5) & M
    h = (h + n) & M
    while i <= n - 4:
        w = struct.unpack_from("<I", data, i)[0]
        h = (h + w * P3) & M
        h = (rotl(h, 17) * P4) & M
        i += 4
    while i < n:
        h = (h + data[i] * P5) & M
        h = (rotl(h, 11) * P1) & M
        i += 1
    h ^= h >> 15
    h = (h * P2) & M
    h ^= h >> 13
    h = (h * P3) & M
    h ^= h >> 16
    return h


def lz4_frame(data, block_len=65536, content_size=False, block_checksum=False, content_checksum=False, bd=4):
    """LZ4 frame made of *stored* (uncompressed) blocks of `block_len` bytes (<= block max).
    bd: block max size code 4=64K 5=256K 6=1M 7=4M."""
    maxsz = {4: 65536, 5: 262144, 6: 1 << 20, 7: 4 << 20}[bd]
    assert 0 < block_len <= maxsz
    flg = 0x40 | 0x20  # version 01, block independence
    if block_checksum:
        flg |= 0x10
    if content_size:
        flg |= 0x08
    if content_checksum:
        flg |= 0x04
    desc = bytes([flg, bd << 4])
    if content_size:
        desc += struct.pack("<Q", len(data))
    hc = (_xxh32(desc) >> 8) & 0xFF
    out = b"\x04\x22\x4d\x18" + desc + bytes([hc])
    for pos in range(0, len(data), block_len):
        blk = data[pos:pos + block_len]
        out += struct.pack("<I", len(blk) | 0x80000000) + blk
        if block_checksum:
            out += struct.pack("<I", _xxh32(blk))
    out += b"\x00\x00\x00\x00"
    if content_checksum:
        out += struct.pack("<I", _xxh32(data))
    return out


def tar(members, fmt=tarfile.USTAR_FORMAT, mtime=EPOCH_2000):
    """members: list of (name, bytes) -> tar bytes."""
    bio = io.BytesIO()
    with tarfile.open(fileobj=bio, mode="w", format=fmt) as tf:
        for name, data in members:
            ti = tarfile.TarInfo(name)
            ti.size = len(data)
            ti.mtime = mtime
            ti.mode = 0o644
            tf.addfile(ti, io.BytesIO(data))
    return bio.getvalue()
