"""C03 — a datetime window selects exactly the messages inside it. Engines: E-SEQ (text) + E-CLI (records)."""
import itertools
import json
import os
import shutil
import subprocess

import common
import gen
import oracle
import seqxdrv

PROP = "C03"
E = gen.EPOCH_2000


def fmt_bound(sec, us):
    y, m, d, h, mi, s = gen.civil(sec)
    return "%04d%02d%02dT%02d%02d%02d.%06d" % (y, m, d, h, mi, s, us)


def records_leg(res, tier):
    """Accounting records (any stored order) through the real binary: every ordering of n records over a
    3-point time domain (ties inside one file are excluded: C08 owns that defect) x every window on/around the values."""
    work = common.scratch_dir(PROP + "rec")
    try:
        times = [(E + 10, 0), (E + 11, 0), (E + 11, 500), (E + 20, 0)]
        n = 3 if tier == "quick" else 4
        files = {}
        for k in range(1, n + 1):
            for perm in itertools.permutations(range(len(times)), k):
                name = "r" + "".join(str(i) for i in perm) + ".wtmp"
                recs = [(times[i][0], times[i][1], b"%d" % i) for i in perm]
                common.write_file(os.path.join(work, name), gen.utmp_file(recs))
                files[name] = [times[i] for i in perm]
        bounds = [None]
        for (s, us) in times:
            for d in (0, -1, 1):
                t = s * 1000000 + us + d
                bounds.append((t // 1000000, t % 1000000))
            bounds.append((s - 1, us))
            bounds.append((s + 1, us))
        bounds = sorted(set(b for b in bounds if b), key=lambda x: x) + [None]
        windows = [(a, b) for a in bounds for b in bounds if not (a is None and b is None) and (a is None or b is None or a <= b)]
        base = {}
        for name in files:
            msgs, _t, _r = oracle.single_source_messages(name, work)
            base[name] = msgs
        items = [(name, w, "utc") for name in files for w in windows]
        # the same instants written in +05:30 with the offset, and zone-less in -03:30 wall-clock time under --tz-offset -03:30
        sub = sorted(files)[:: (5 if tier == "quick" else 1)]
        items += [(name, w, st) for name in sub for w in windows for st in ("off", "naive")]

        def btext(b_, st):
            if st == "off":
                return fmt_bound(b_[0] + 330 * 60, b_[1]) + "+05:30"
            if st == "naive":
                return fmt_bound(b_[0] - 210 * 60, b_[1])
            return fmt_bound(*b_)

        def one(it):
            name, (a, b), st = it
            args = list(oracle.DEC_ARGS) + ["-t=" + ("-03:30" if st == "naive" else "+00:00")]
            if a:
                args += ["-a", btext(a, st)]
            if b:
                args += ["-b", btext(b, st)]
            return it, common.run_s4(args + [name], cwd=work), args + [name]

        for (name, (a, b), st), r, args in common.pmap(one, items):
            res.count()
            def key(dtk):  # b"YYYYMMDDTHHMMSS.nnnnnnnnn" -> comparable with bounds
                return dtk
            lo = fmt_bound(*a).encode() + b"000" if a else None
            hi = fmt_bound(*b).encode() + b"000" if b else None
            exp = [c for (k, c) in base[name] if (lo is None or k >= lo) and (hi is None or k <= hi)]
            expected = b"".join(c + oracle.SEPB for c in exp)
            if r.timed_out or r.rc not in (0, 1) or r.out != expected:
                got_n = r.out.count(oracle.SEPB)
                res.violation({"kind": "records", "symptom": "selection-differs" if r.rc in (0, 1) else "crash",
                               "bound_style": st, "stored_in_time_order": files[name] == sorted(files[name]), "has_before": b is not None, "has_after": a is not None},
                              "utmp records %s window [%s,%s]: printed %d records, expected %d" % (name, a, b, got_n, len(exp)),
                              {"engine": "E-CLI", "args": args, "files": {name: common.b64(open(os.path.join(work, name), "rb").read())},
                               "expected_stdout": common.b64(expected)})
        res.distinct(("records", len(files)))
        for name in list(files)[:400]:
            res.distinct(("rec", name))
        res.coverage["records_leg"] = {"files": len(files), "windows": len(windows)}
        res.sample({"kind": "records", "file": "r210.wtmp (stored out of time order)", "window": ["-a", fmt_bound(*times[1]), "-b", fmt_bound(*times[2])]})
    finally:
        shutil.rmtree(work, ignore_errors=True)


def run(tier, seed, build=True):
    if build:
        common.build_harness(("seqx",))
        common.build_real()
    res = common.Result(PROP, tier, "model_checking", seed)
    s = seqxdrv.run_sub(res, "c03", tier)
    seqxdrv.merge_summary(res, s)
    records_leg(res, tier)
    try:
        import c09
        c09.window_leg(res, tier, PROP)
    except ImportError:
        pass
    try:
        import c10
        c10.window_leg(res, tier, PROP)
    except ImportError:
        pass
    cov = res.coverage
    cov["states"] = cov["distinct_nontrivial"]
    cov["transitions"] = cov["evaluations"]
    cov["traces_validated_against_impl"] = cov["evaluations"]
    res.assumptions += ["text logs use one notation; first stamped line lies inside block zero (C02/C12 own that defect)",
                        "record-file ties inside one file are excluded here (C08 owns the overwrite defect)"]
    return res.finish()


def replay(path, build=True):
    if build:
        common.build_harness(("seqx",))
        common.build_real()
    r = json.load(open(path))["replay"]
    if r.get("engine") == "E-CLI":
        import c02
        return c02.common_replay_cli(path, r, PROP)
    p = subprocess.run([common.SEQX, "c03", "--replay", path], capture_output=True, text=True)
    common.log(p.stdout.strip()[-2000:])
    if p.returncode == 1:
        common.log("VIOLATION property=%s replay=%s" % (PROP, path))
        return common.EXIT_VIOLATION
    return common.EXIT_OK if p.returncode == 0 else common.EXIT_MACHINERY
