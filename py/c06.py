"""C06 — output independent of scheduling; the run always ends. Engine: E-SCHED."""
import os
import shutil

import common
import gen
import oracle
import sched

PROP = "C06"
E = gen.EPOCH_2000


def wt(recs):
    return gen.utmp_file([(E + s, us, tok.encode()) for (s, us, tok) in recs])


def tx(msgs):
    return gen.text_log([(1000 * (E + s) + ms, body.encode()) for (s, ms, body) in msgs])


def configs(tier):
    """name -> (files [(name, bytes)], extra args). Each forces one shortcut visible in the coordinator."""
    c = {}
    # (a) channel fills (capacity 5) while the coordinator waits for the other source's first message
    c["fill"] = ([("a.wtmp", wt([(10, 0, "A1")])), ("b.wtmp", wt([(20 + i, 0, "B%d" % i) for i in range(8)]))], [])
    # (b) a source with nothing inside the window beside one with two messages
    c["zero"] = ([("a.wtmp", wt([(1, 0, "A1"), (2, 0, "A2")])), ("b.wtmp", wt([(30, 0, "B1"), (31, 0, "B2")]))],
                 ["-a", "20000101T000010"])
    # (d) error sources beside a valid one: a worker that fails while opening (FileInfo(err) + FileSummary) ...
    c["err"] = ([("g.log.gz", b"\x1f\x8b\x08\x00garbage"), ("b.wtmp", wt([(30, 0, "B1"), (31, 0, "B2")]))], [])
    # ... and one that is opened but holds no message at all (FileInfo(ok) + FileSummary(err))
    c["nosys"] = ([("n.log", b"no timestamp here\nnor here\n"), ("b.wtmp", wt([(30, 0, "B1"), (31, 0, "B2")]))], [])
    # (e) equal instants across sources, interleaved
    c["ties2"] = ([("a.wtmp", wt([(5, 0, "A1"), (6, 0, "A2")])), ("b.wtmp", wt([(5, 0, "B1"), (6, 0, "B2")]))], [])
    # text readers (different worker function)
    c["text2"] = ([("a.log", tx([(1, 0, "a1"), (3, 0, "a2")])), ("b.log", tx([(2, 0, "b1"), (3, 0, "b2")]))], [])
    # the same notation in two files whose pattern sits late in the built-in list (many lazily compiled cells are touched);
    # only explored in the once-cell mode
    c["iso2"] = ([("a.log", b"2000-01-01 00:00:01 host app: a1\n2000-01-01 00:00:03 host app: a2\n"),
                  ("b.log", b"2000-01-01 00:00:02 host app: b1\n2000-01-01 00:00:03 host app: b2\n")], [])
    c["apache2"] = ([("a.log", b'127.0.0.1 - - [01/Jan/2000:00:00:01 +0000] "GET /a1 HTTP/1.1" 200 12\n127.0.0.1 - - [01/Jan/2000:00:00:03 +0000] "GET /a2 HTTP/1.1" 200 12\n'),
                     ("b.log", b'127.0.0.1 - - [01/Jan/2000:00:00:02 +0000] "GET /b1 HTTP/1.1" 200 12\n127.0.0.1 - - [01/Jan/2000:00:00:03 +0000] "GET /b2 HTTP/1.1" 200 12\n')], [])
    # (f) a path that gets no worker (an empty file) named BEFORE the sources: PathIds and worker indexes then differ;
    # the last source still has more messages than a channel holds when the short one finishes
    c["gap"] = ([("e.log", b""), ("s.wtmp", wt([(1, 0, "S1")])), ("l.wtmp", wt([(10 + i, 0, "L%d" % i) for i in range(9)]))], [])
    # (g) coloured output: the colour given to each file is part of stdout and may not depend on the schedule either
    c["color2"] = ([("a.wtmp", wt([(5, 0, "A1"), (7, 0, "A2")])), ("b.log", tx([(5, 0, "b1"), (6, 0, "b2")]))], ["--color=always"])
    if tier == "thorough":
        c["ties3"] = ([("a.wtmp", wt([(5, 0, "A1")])), ("b.wtmp", wt([(5, 0, "B1")])), ("c.wtmp", wt([(5, 0, "C1")]))], [])
        c["three"] = ([("a.wtmp", wt([(1, 0, "A1"), (4, 0, "A2")])), ("b.wtmp", wt([(2, 0, "B1"), (4, 0, "B2")])),
                       ("c.wtmp", wt([(3, 0, "C1")]))], [])
        c["zero3"] = ([("a.wtmp", wt([(1, 0, "A1"), (2, 0, "A2")])), ("b.wtmp", wt([(30, 0, "B1"), (31, 0, "B2")])),
                       ("c.wtmp", wt([(30, 0, "C1"), (32, 0, "C2")]))], ["-a", "20000101T000010"])
        c["mixed"] = ([("a.log", tx([(1, 0, "a1"), (3, 0, "a2")])), ("b.wtmp", wt([(2, 0, "B1"), (3, 0, "B2")]))], [])
    return c


def build_config(work, name, files, extra, **kw):
    d = os.path.join(work, name)
    os.makedirs(d)
    for fn, data in files:
        common.write_file(os.path.join(d, fn), data)
    names = [fn for fn, _ in files]
    color = "--color=always" in extra
    extra = [e for e in extra if e != "--color=always"]
    dec = [("always" if (color and a == "never") else a) for a in oracle.DEC_ARGS]
    args = dec + ["-t", "+00:00"] + list(extra) + names
    # workers exist only for sources that are opened, in argument order (a zero-length file gets none)
    cfg = sched.Config(name, d, args, [fn for fn, data in files if data], **kw)
    per_source = []
    for fn in names:
        msgs, _tail, _r = oracle.single_source_messages(fn, d, extra=extra, binary=common.S4V)
        per_source.append(msgs)
    return cfg, oracle.expected_output(per_source), per_source


def make_judge(expected, expect_rc):
    def judge(x):
        tr = x.trace
        if tr is None:
            return ({"symptom": "no-trace", "rc": x.rc}, "execution ended without a scheduler trace (rc=%s, stderr %r)" % (x.rc, x.err[-200:]))
        oc = tr.get("outcome")
        if oc != "completed":
            return ({"symptom": oc}, "scheduler outcome %s: %s" % (oc, tr.get("what", "")))
        if x.out != expected:
            return ({"symptom": "stdout-differs"}, "stdout differs from the reference merge under this schedule")
        if x.rc != expect_rc:
            return ({"symptom": "exit-status-differs", "rc": x.rc}, "exit status %s, expected %s" % (x.rc, expect_rc))
        return None
    return judge


def run(tier, seed, build=True):
    if build:
        common.build_harness(("s4v",))
    res = common.Result(PROP, tier, "model_checking", seed)
    work = common.scratch_dir(PROP)
    tot_states = tot_trans = tot_exec = 0
    per_cfg = {}
    try:
        for name, (files, extra) in configs(tier).items():
            cfg, expected, per_source = build_config(work, name, files, extra)
            # default schedule gives the expected exit status
            x0 = cfg.run([])
            if x0.trace is None:
                # no trace: the harness lost control, or the program itself hangs/dies. Ask the program, uncontrolled.
                free = [common.run_s4(cfg.args, cwd=cfg.workdir, timeout=20, binary=common.S4V) for _ in range(2)]
                if any(r.timed_out or r.rc not in (0, 1) for r in free):
                    res.count()
                    res.violation({"symptom": "hang-or-crash-uncontrolled", "config": name}, "config %s: `s4 %s` does not end (or dies) even without the scheduler: rc %s" % (
                        name, " ".join(cfg.args), [("timeout" if r.timed_out else r.rc) for r in free]),
                        {"engine": "E-CLI", "config": name, "args": cfg.args, "files": {fn: common.b64(data) for fn, data in files}, "expected_stdout": common.b64(expected)})
                    continue
                raise common.MachineryError("default schedule of %s left no trace: rc=%s %r" % (name, x0.rc, x0.err[-300:]))
            if "--color=always" in extra:
                # every schedule must print the bytes of the default schedule, escape
                # sequences included; without them these are the reference merge
                import c13
                if c13.ESC.sub(b"", x0.out) != expected:
                    res.count()
                    res.violation({"symptom": "stdout-differs", "config": name}, "config %s: coloured output of the default schedule, escape sequences removed, is not the reference merge" % name,
                                  {"engine": "E-SCHED", "config": name, "args": cfg.args, "sources": cfg.sources, "files": {fn: common.b64(data) for fn, data in files}, "choices": [],
                                   "expected_stdout": common.b64(expected)})
                    continue
                expected = x0.out
            judge = make_judge(expected, x0.rc)
            budget = (25000, 40) if tier == "quick" else (400000, 1500)
            dmax = 2 if tier == "quick" else 3
            try:
                if name in ("iso2", "apache2"):
                    # channel-level schedules of this configuration equal text2's; here only the once-cell mode matters
                    st, viols = sched.explore(cfg, judge, mode="dev", max_dev=0, max_execs=10, max_wall=60)
                else:
                    st, viols = sched.explore(cfg, judge, mode="pruned", max_execs=budget[0], max_wall=budget[1])
                # unpruned, deviation-bounded pass (sound whatever the fingerprint hides)
                st2, viols2 = sched.explore(cfg, judge, mode="dev", max_dev=dmax, max_execs=budget[0], max_wall=budget[1])
            except common.MachineryError as e:
                res.machinery.append(str(e))
                continue
            per_cfg[name] = {"pruned": st.as_dict(), "dev<=%d" % dmax: st2.as_dict(), "messages_per_source": [len(m) for m in per_source]}
            common.log("[C06] %-6s pruned: %s" % (name, st.as_dict()))
            common.log("[C06] %-6s dev<=%d: %s" % (name, dmax, st2.as_dict()))
            tot_states += len(st.states)
            tot_trans += st.transitions + st2.transitions
            tot_exec += st.executions + st2.executions
            res.count(st.executions + st2.executions)
            for s_ in st.states:
                res.distinct((name, s_))
            if not st.exhausted:
                res.cap("%s pruned: %s" % (name, st.cap))
            if not st2.exhausted:
                res.cap("%s dev<=%d: %s" % (name, dmax, st2.cap))
            # vacuity self-checks
            if viols or viols2 or name in ("iso2", "apache2"):
                pass
            elif len(st.histories) < 2 and len(files) > 1:
                raise common.MachineryError("vacuous driver %s: one receive history only" % name)
            elif name == "fill" and st.max_q < 5:
                raise common.MachineryError("vacuous driver fill: queue never reached capacity (max %d)" % st.max_q)
            for feats, what, choices in viols + viols2:
                feats = dict(feats, config=name)
                res.violation(feats, "%s [config %s]" % (what, name),
                              {"engine": "E-SCHED", "config": name, "args": cfg.args, "sources": cfg.sources,
                               "files": {fn: common.b64(data) for fn, data in files}, "choices": choices,
                               "expected_stdout": common.b64(expected)})
            # worker-vs-worker shared state: the lazily compiled pattern cells (OnceCell) are global to all workers. With the
            # instrumented once_cell every access to a not-yet-initialised cell is a scheduling point; non-preemptive default
            # policy, all schedules with <= 2 preemptions.
            if name in ("text2", "iso2", "apache2") or (tier == "thorough" and name == "mixed"):
                cfg_o = sched.Config(name + "+once", cfg.workdir, cfg.args, cfg.sources, policy="sticky", once=True)
                xo = cfg_o.run([])
                if xo.trace is None:
                    res.machinery.append("once-mode default schedule of %s left no trace: %r" % (name, xo.err[-200:]))
                    continue
                try:
                    od = (1 if name in ("iso2", "apache2") else 2) if tier == "quick" else (2 if name in ("iso2", "apache2") else 3)
                    st3, viols3 = sched.explore(cfg_o, judge, mode="dev", max_dev=od, max_execs=budget[0], max_wall=budget[1])
                except common.MachineryError as e:
                    res.machinery.append(str(e))
                    st3, viols3 = None, []
                if st3:
                    common.log("[C06] %-6s once dev<=2: %s" % (name, st3.as_dict()))
                    per_cfg[name]["oncecell_points dev<=%d" % (2 if tier == "quick" else 3)] = st3.as_dict()
                    tot_trans += st3.transitions
                    tot_exec += st3.executions
                    res.count(st3.executions)
                    if not st3.exhausted:
                        res.cap("%s once: %s" % (name, st3.cap))
                    for feats, what, choices in viols3:
                        res.violation(dict(feats, config=name, mode="oncecell"), "%s [config %s, scheduling points at uninitialised OnceCells]" % (what, name),
                                      {"engine": "E-SCHED", "config": name, "args": cfg.args, "sources": cfg.sources, "once": True, "policy": "sticky",
                                       "files": {fn: common.b64(data) for fn, data in files}, "choices": choices, "expected_stdout": common.b64(expected)})
            res.sample({"config": name, "argv": cfg.args, "default_schedule_events": x0.trace.get("events"),
                        "decisions_in_default_schedule": len(x0.trace.get("decisions", []))})
        # ---- many sources: more paths than any machine word has bits (PathIds 0..69), under the canonical schedules only
        wide_files = [("w%02d.wtmp" % i, wt([(100 + i, 0, "W%d" % i)])) for i in range(70)]
        cfgw, expw, _per = build_config(work, "wide70", wide_files, [], exec_timeout=180, step_limit=200000)
        for pol in ("main-first", "workers-first", "workers-reverse", "sticky"):
            xw = cfgw.run([], policy=pol)
            res.count()
            res.distinct(("wide70", pol))
            ocw = xw.trace.get("outcome") if xw.trace else "no-trace"
            if ocw != "completed" or xw.out != expw:
                res.violation({"symptom": ocw if ocw != "completed" else "stdout-differs", "config": "wide70"},
                              "70 sources under policy %s: outcome %s, stdout %s the reference merge" % (pol, ocw, "equals" if xw.out == expw else "differs from"),
                              {"engine": "E-SCHED", "config": "wide70", "args": cfgw.args, "sources": cfgw.sources, "files": {fn: common.b64(d_) for fn, d_ in wide_files},
                               "choices": xw.choices if ocw == "completed" else [], "policy": pol, "expected_stdout": common.b64(expw)})
    finally:
        shutil.rmtree(work, ignore_errors=True)
    res.coverage.update({
        "states": tot_states, "transitions": tot_trans, "traces_validated_against_impl": tot_exec,
        "rule": "one evaluation = one complete execution of the real coordinator and real worker functions under one schedule; "
                "distinct_nontrivial = distinct scheduler-state fingerprints (per configuration) at which a decision was taken",
        "per_configuration": per_cfg,
        "explanation": "every execution IS the implementation (no separate model): states are fingerprints of the scheduler-visible state of the real run",
    })
    res.assumptions += ["scheduling points are the channel operations (send, select alternative, endpoint drops); code between them runs unpreempted",
                        "strict fingerprint (per-thread op history hashes + channel counters) identifies states with equal futures",
                        "no weak-memory effects; stdout never blocks"]
    return res.finish()


def replay(path, build=True):
    import base64
    import json
    if build:
        common.build_harness(("s4v",))
    r = json.load(open(path))["replay"]
    work = common.scratch_dir(PROP + "r")
    try:
        d = os.path.join(work, "r")
        os.makedirs(d)
        for fn, b in r["files"].items():
            common.write_file(os.path.join(d, fn), base64.b64decode(b))
        cfg = sched.Config("replay", d, r["args"], r["sources"], sigint=r.get("sigint", False), hooks=r.get("hooks", False), postops=r.get("postops", False),
                           once=r.get("once", False), policy=r.get("policy"))
        x1 = cfg.run(r["choices"])
        x2 = cfg.run(r["choices"])
        if (x1.trace is None) != (x2.trace is None) or (x1.trace and sched.trace_key(x1.trace) != sched.trace_key(x2.trace)) or x1.out != x2.out:
            raise common.MachineryError("replay is not deterministic")
        exp = base64.b64decode(r["expected_stdout"])
        oc = x1.trace.get("outcome") if x1.trace else "no-trace"
        common.log("replay outcome=%s rc=%s stdout_equal=%s tmp_left=%s" % (oc, x1.rc, x1.out == exp, x1.tmp_left))
        if x1.trace:
            common.log("events: %s" % " ".join(x1.trace.get("events", [])))
        bad = oc != "completed" or x1.out != exp or (r.get("check_tmp") and x1.tmp_left)
        if bad:
            common.log("VIOLATION property=%s replay=%s" % (r.get("property", PROP), path))
            return common.EXIT_VIOLATION
        return common.EXIT_OK
    finally:
        shutil.rmtree(work, ignore_errors=True)
