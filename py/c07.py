"""C07 — malformed input cannot crash, hang, or disturb other sources. Engine: E-FAULT (fault enumeration) against the
shipped-configuration binary (panic=abort)."""
import itertools
import os
import shutil

import common
import gen
import layouts
import samples

PROP = "C07"
E = gen.EPOCH_2000
NEIGH = gen.text_log([(E * 1000 + 1000 * i, b"neighbour line %d" % i) for i in range(4)])
NEIGH_LINES = [l for l in NEIGH.split(b"\n") if l]


def seeds(work, tier):
    """(label, file name that selects the reader, bytes, [offset classes for byte corruption])"""
    out = []
    text = gen.text_log([(E * 1000 + 500 + 1000 * i, b"seed message %d" % i, [b"  continuation"] if i == 1 else []) for i in range(3)])
    out.append(("text", "s.log", text, list(range(0, min(64, len(text))))))
    # a log whose stamps carry no year (the year is inferred walking backwards from the end)
    yl = b"".join(b"Mar  %d 00:00:0%d host prog[%d]: yearless message %d\n" % (1 + i // 3, i % 3, 100 + i, i) for i in range(7))
    out.append(("text.yearless", "y.log", yl, list(range(0, 24))))
    ut = gen.utmp_file([(E + 1, 0, b"A"), (E + 2, 5, b"B")])
    out.append(("utmp", "wtmp", ut, list(range(0, 8)) + list(range(384, 392)) + list(range(340, 348))))
    for lid in ("linux_x86_lastlog", "linux_x86_acct", "linux_x86_acct_v3", "netbsd_x8664_utmp", "openbsd_x86_utmp", "freebsd_x8664_utmpx"):
        lay = layouts.layout(lid)
        data = b"".join(layouts.record(lay, E + 1 + i, 0, b"T%d" % i, i) for i in range(2))
        out.append((lid, lay["file"], data, list(range(0, 12)) + list(range(lay["size"], lay["size"] + 8))))
    g = gen.gz(text, 6, mtime=E, fname=b"s.log")
    out.append(("text.gz", "s.log.gz", g, list(range(0, 24)) + list(range(len(g) - 8, len(g)))))
    b = gen.bz(text, 1)
    out.append(("text.bz2", "s.log.bz2", b, list(range(0, 16)) + list(range(len(b) - 10, len(b)))))
    x = gen.xz(text, 0)
    out.append(("text.xz", "s.log.xz", x, list(range(0, 32)) + list(range(len(x) - 16, len(x)))))
    l4 = gen.lz4_frame(text, 64, content_size=True, content_checksum=True)
    out.append(("text.lz4", "s.log.lz4", l4, list(range(0, 24)) + list(range(len(l4) - 8, len(l4)))))
    t = gen.tar([("s.log", text)])
    out.append(("text.tar", "s.tar", t, list(range(0, 8)) + list(range(100, 160)) + list(range(257, 265))))
    ug = gen.gz(ut, 6)
    out.append(("utmp.gz", "wtmp.gz", ug, list(range(0, 12)) + list(range(len(ug) - 8, len(ug)))))
    pe = samples.evtx(work, "noevents", "seed.evtx")
    if pe:
        ev = open(pe, "rb").read()
        os.remove(pe)
        out.append(("evtx", "e.evtx", ev, list(range(0, 128)) + list(range(0x1000, 0x1000 + 128))))
    pj = samples.journal(work, "u3", "seed.journal")
    if pj:
        jb = open(pj, "rb").read()
        os.remove(pj)
        out.append(("journal", "j.journal", jb, list(range(0, 272))))
        jg = gen.gz(jb, 1)
        out.append(("journal.gz", "j.journal.gz", jg, list(range(0, 12)) + list(range(len(jg) - 8, len(jg)))))
    return out


import hashlib as _h
BIGGZ = gen.gz(gen.text_log([(E * 1000 + i * 10, b"big " + _h.sha256(b"%d" % i).hexdigest().encode()) for i in range(3000)]), 6)      # ~280 KB decoded
JUNK_PRE = [b"garbage first line\n", b"\n", b"x" * 100 + b"\n", b"\x00\x00\x00\n", b"partial line without its beginning 12:34\n"]
JUNK = [b"\x00", b"\n", b"\xff" * 8, b"x" * 16, b"\x00" * 512, b"\x00" * 4096, bytes(range(256)), "self", "bigger-member"]


def truncation_points(label, n, tier):
    if n <= 9000:
        pts = range(0, n)
        if tier == "thorough" or n <= 400:
            return list(pts)
        if n <= 800:
            # quick tier, record files of two records: every length in the first 120 bytes and the last 24, every 3rd between
            return sorted(set(list(range(0, 120)) + list(range(120, n, 3)) + list(range(n - 24, n))))
        return sorted(set(list(range(0, 300)) + list(range(300, n, 29)) + list(range(n - 24, n))))
    # large formats: every length within the header region, every chunk/object-size step, the tail
    if tier == "thorough":
        return sorted(set(list(range(0, 4200)) + list(range(4200, n, 512)) + list(range(n - 16, n))))
    return sorted(set(list(range(0, 300)) + list(range(300, min(n, 70000), 4096)) + [n // 8, n // 2, n - 4097] + list(range(n - 4, n))))


def judge(res, feats, what, r, replay, with_neighbour):
    sym = None
    if r.timed_out:
        sym = "timeout"
    elif r.rc is not None and r.rc < 0:
        sym = "signal"
    elif r.rc not in (0, 1):
        sym = "exit-status"
    elif b"panicked at" in r.err:
        sym = "panic"
    elif with_neighbour:
        # every line of the valid neighbour present, in order (a stray NUL right in front of a line is C08's record terminator)
        pos = 0
        ok = True
        for ln in NEIGH_LINES:
            k = r.out.find(ln + b"\n", pos)
            if k < 0:
                ok = False
                break
            pos = k + len(ln)
        if not ok:
            sym = "neighbour-lines-missing"
    if sym:
        res.violation(dict(feats, symptom=sym, with_neighbour=with_neighbour), "%s: %s (rc=%s, stderr tail %r)" % (what, sym, r.rc, r.err[-120:]), replay)


def run(tier, seed, build=True):
    if build:
        common.build_real()
    res = common.Result(PROP, tier, "fault_enumeration", seed)
    work = common.scratch_dir(PROP)
    try:
        sd = seeds(work, tier)
        common.write_file(os.path.join(work, "n.log"), NEIGH)
        cases = []        # (seed label, fault kind, file name, bytes-producer args)
        for label, fname, data, offs in sd:
            # sanity: the seed itself is fine
            cases.append((label, "seed", fname, ("asis",)))
            for n in truncation_points(label, len(data), tier):
                cases.append((label, "truncate", fname, ("trunc", n)))
            if len(data) <= 200000 or tier == "thorough":
                reps = [0x00, 0xFF, "x1", "x80"]
                for o in (offs if (tier == "thorough" or len(data) < 1000000) else offs[::6])[:: (2 if (tier == "quick" and label == "evtx") else 1)]:
                    if o >= len(data):
                        continue
                    vals = range(256) if (label in ("utmp",) and o < 8 and (tier == "thorough" or o < 2)) else reps
                    for v in vals:
                        cases.append((label, "corrupt", fname, ("byte", o, v)))
                for o in offs[::4]:
                    if o + 1 < len(data):
                        cases.append((label, "corrupt2", fname, ("bytes2", o, 0xFF)))
                        cases.append((label, "corrupt2", fname, ("bytes2", o, 0x00)))
        # bytes after the end of a complete file: padding, junk, the file once more (a second member), a larger second member
        for label, fname, data, offs in sd:
            if len(data) > 200000 and tier == "quick":
                continue
            for j in range(len(JUNK)):
                cases.append((label, "append", fname, ("append", j)))
        # bytes in front of a complete file: a line without a timestamp, an empty line, a long filler line, NULs
        for label, fname, data, offs in sd:
            if len(data) > 200000 and tier == "quick":
                continue
            for j in range(len(JUNK_PRE)):
                cases.append((label, "prepend", fname, ("prepend", j)))
        # files whose size sits on an internal threshold (block-zero analysis tables are keyed by the size of block zero:
        # 8096; the default block size 65536), as text, as random bytes, and gz-compressed
        for n in (8095, 8096, 8097, 65535, 65536, 65537):
            for kind in ("text", "random", "text.gz"):
                cases.append(("sized", "size-threshold", "s.log.gz" if kind == "text.gz" else "s.log", ("sized", n, kind)))
        # a gz whose deflate stream is cut after more than one block of decoded data has been read successfully
        for frac in (range(2, 16) if tier == "quick" else range(1, 64)):
            cases.append(("biggz", "truncate-late", "big.log.gz", ("biggz", frac, 16 if tier == "quick" else 64)))
        # every seed under every other type-selecting name
        names = sorted({fname for _, fname, _, _ in sd} | {"x.journal.xz", "x.evtx.bz2", "lastlogx", "acct.1.gz", "x.tar"})
        for label, fname, data, offs in sd:
            if len(data) > 200000 and tier == "quick":
                continue
            for nm in names:
                if nm != fname:
                    cases.append((label, "misnamed", nm, ("asis",)))
        # all short byte strings over a reduced alphabet under each type-selecting name
        alpha = [0x00, 0x0A, 0x30, 0x61, 0x80, 0xFF] if tier != "quick" else [0x00, 0x0A, 0x30, 0x80, 0xFF]
        lens = [4] if tier == "quick" else [6]
        short_names = ["s.log", "wtmp", "lastlog", "acct", "j.journal", "e.evtx", "s.log.gz", "s.log.xz", "s.log.bz2", "s.log.lz4", "s.tar"]
        if tier == "quick":
            short_names = ["wtmp", "s.log.gz"]
        for L in lens:
            for tup in itertools.product(alpha, repeat=L):
                if L == 4:
                    tup = tup + (0x0A, 0x30)      # quick tier: every 4-byte prefix, fixed 2-byte tail (files under 5 bytes are not opened at all)
                for nm in short_names:
                    cases.append(("short", "short-string", nm, ("raw", bytes(tup))))
        seedmap = {label: data for label, _, data, _ in sd}
        common.log("[C07] %d seeds, %d fault cases (each alone and beside a valid source)" % (len(sd), len(cases)))

        def mutate(label, spec):
            if spec[0] == "raw":
                return spec[1]
            if spec[0] == "sized":
                n, kind = spec[1], spec[2]
                if kind == "random":
                    import hashlib
                    blob = b"".join(hashlib.sha256(b"%d" % i).digest() for i in range(n // 32 + 1))[:n]
                    return blob[:200] + b"\n" + blob[201:4000] + b"\n" + blob[4001:]
                lines = []
                i = 0
                while sum(len(x) for x in lines) < n - 80:
                    lines.append(gen.ts0((E + i) * 1000) + b" sized message %05d\n" % i)
                    i += 1
                body = b"".join(lines)
                body += gen.ts0((E + i) * 1000) + b" " + b"z" * (n - len(body) - 27) + b"\n"
                assert len(body) == n
                return gen.gz(body, 6) if kind == "text.gz" else body
            if spec[0] == "biggz":
                z = BIGGZ
                return z[: len(z) * spec[1] // spec[2]]
            data = seedmap[label]
            if spec[0] == "asis":
                return data
            if spec[0] == "trunc":
                return data[:spec[1]]
            if spec[0] == "prepend":
                return JUNK_PRE[spec[1]] + data
            if spec[0] == "append":
                j = JUNK[spec[1]]
                if j == "self":
                    return data + data
                if j == "bigger-member":
                    if label.endswith(".gz"):
                        return data + gen.gz(NEIGH * 3 + b"tail without newline", 6)
                    if label.endswith(".bz2"):
                        return data + gen.bz(NEIGH * 3, 1)
                    if label.endswith(".xz"):
                        return data + gen.xz(NEIGH * 3, 0)
                    if label.endswith(".lz4"):
                        return data + gen.lz4_frame(NEIGH * 3, 64, content_size=True, content_checksum=True)
                    return data + data[: len(data) // 2]
                return data + j
            b = bytearray(data)
            if spec[0] == "byte":
                o, v = spec[1], spec[2]
                b[o] = (b[o] ^ 1) if v == "x1" else (b[o] ^ 0x80) if v == "x80" else v
            else:
                o, v = spec[1], spec[2]
                b[o] = v
                b[o + 1] = v
            return bytes(b)

        def one(ic):
            i, (label, kind, fname, spec) = ic
            d = os.path.join(work, "f%d" % i)
            os.makedirs(d)
            blob = mutate(label, spec)
            common.write_file(os.path.join(d, fname), blob)
            shutil.copy(os.path.join(work, "n.log"), os.path.join(d, "n.log"))
            big = len(blob) > 1000000
            tmpd = os.path.join(d, "tmp")
            os.makedirs(tmpd)
            env = {"TMPDIR": tmpd}
            # alone: with --summary (the summary of a source that failed is code of its own); beside a valid source: without
            r1 = common.run_s4(["--color", "never", "-s", "-t", "+00:00", fname], cwd=d, timeout=20, env=env)
            r2 = common.run_s4(["--color", "never", "-t", "+00:00", fname, "n.log"], cwd=d, timeout=20, env=env)
            shutil.rmtree(d, ignore_errors=True)
            return ic, r1, r2, len(blob), big
        nseed_ok = 0
        def chunks():
            n = 0
            while n < len(cases):
                for item in common.pmap(one, [(i, cases[i]) for i in range(n, min(n + 20000, len(cases)))]):
                    yield item
                n += 20000
        for (i, (label, kind, fname, spec)), r1, r2, blen, big in chunks():
            res.count(2)
            res.distinct((label, kind, fname, spec[1:] if spec[0] != "raw" else spec[1]))
            feats = {"seed": label, "fault": kind, "name": fname}
            desc = "%s %s %s as %s" % (label, kind, spec[1:] if spec[0] != "raw" else spec[1].hex(), fname)
            rep = {"engine": "E-FAULT", "seed": label, "fault": list(spec) if spec[0] != "raw" else ["raw", spec[1].hex()], "name": fname}
            judge(res, feats, desc + " (alone, --summary)", r1, dict(rep, args=["--color", "never", "-s", "-t", "+00:00", fname]), False)
            judge(res, feats, desc + " (beside a valid source)", r2, dict(rep, args=["--color", "never", "-t", "+00:00", fname, "n.log"]), True)
            if kind == "seed" and r1.out:
                nseed_ok += 1
        if nseed_ok < len(sd) - 1:
            raise common.MachineryError("only %d of %d seeds print anything unmodified: the seeds are not valid inputs" % (nseed_ok, len(sd)))
        res.sample({"seed": "text.gz", "fault": ["trunc", 37], "argv": ["--color", "never", "s.log.gz", "n.log"]})
        res.sample({"seed": "utmp", "fault": ["byte", 0, 12], "argv": ["--color", "never", "wtmp", "n.log"]})
        res.coverage["seeds"] = [s_[0] for s_ in sd]
        res.coverage["rule"] = ("seeds: one small valid file per kind x container (text, 7 accounting layouts, gz/bz2/xz/lz4/tar, utmp.gz, evtx, journal, journal.gz); faults: every truncation length "
                                "(large formats: every length in the header region + fixed steps + tail), byte replacements {00,FF,^01,^80} at every offset of the magic/header/size/trailer classes (all 256 values "
                                "for the accounting type field), 2-byte variants, every seed under every other type-selecting name, every byte string of length 6 over {00,0A,'0','a',80,FF} under type-selecting "
                                "names (quick tier: every 4-byte prefix with a fixed tail under 2 names); bytes appended after a complete file (padding, junk, a second and a larger second member); each fault alone and beside a valid text source; oracle: exit 0/1, no signal, no 'panicked at', < 20 s, neighbour lines intact. "
                                "distinct_nontrivial = distinct fault cases")
        if tier == "quick":
            res.coverage["note"] = "quick tier: short strings = all 4-byte prefixes + fixed tail; truncation points of seeds > 800 bytes are every length < 300, every 29th beyond, and the tail; large seeds: header region, 4 KiB steps to 70 KB, 3 large points, tail"
    finally:
        shutil.rmtree(work, ignore_errors=True)
    res.assumptions += ["'ends promptly' is judged as < 20 s per run (seeds finish in < 0.1 s)"]
    return res.finish()


def replay(path, build=True):
    import json
    if build:
        common.build_real()
    r = json.load(open(path))["replay"]
    work = common.scratch_dir(PROP + "r")
    try:
        sd = seeds(work, "thorough")
        seedmap = {label: data for label, _, data, _ in sd}
        spec = r["fault"]
        if spec[0] == "raw":
            blob = bytes.fromhex(spec[1])
        else:
            data = seedmap[r["seed"]]
            b = bytearray(data)
            if spec[0] == "asis":
                pass
            elif spec[0] == "trunc":
                b = b[:spec[1]]
            elif spec[0] == "byte":
                o, v = spec[1], spec[2]
                b[o] = (b[o] ^ 1) if v == "x1" else (b[o] ^ 0x80) if v == "x80" else v
            else:
                b[spec[1]] = spec[2]
                b[spec[1] + 1] = spec[2]
            blob = bytes(b)
        common.write_file(os.path.join(work, r["name"]), blob)
        common.write_file(os.path.join(work, "n.log"), NEIGH)
        x = common.run_s4(r["args"], cwd=work, timeout=20)
        common.log("rc=%s timed_out=%s stdout=%r stderr=%r" % (x.rc, x.timed_out, x.out[:300], x.err[-300:]))
        bad = x.timed_out or x.rc not in (0, 1) or b"panicked at" in x.err
        if bad:
            common.log("VIOLATION property=%s replay=%s" % (PROP, path))
            return common.EXIT_VIOLATION
        return common.EXIT_OK
    finally:
        shutil.rmtree(work, ignore_errors=True)
