"""C13 — prepended fields, separators and colour are pure decoration. Engine: E-CLI over the option lattice."""
import itertools
import os
import re
import shutil
import unicodedata

import common
import gen
import oracle

PROP = "C13"
E = gen.EPOCH_2000
ESC = re.compile(rb"\x1b\[[0-9;]*m")
SEP = oracle.SEP


def dwidth(s):
    """display width (East Asian wide/fullwidth = 2, combining = 0)"""
    w = 0
    for ch in s:
        if unicodedata.combining(ch):
            continue
        w += 2 if unicodedata.east_asian_width(ch) in ("W", "F") else 1
    return w


def strftime(fmt, epoch_ns, off_min):
    """own strftime subset: %Y %m %d %H %M %S %s %.3f %.6f %.9f %z %:z %Z %% and literals"""
    loc = epoch_ns // 10 ** 9 + off_min * 60
    y, mo, d, h, mi, s = gen.civil(loc)
    ns = epoch_ns % 10 ** 9
    sign = "+" if off_min >= 0 else "-"
    a = abs(off_min)
    out = ""
    i = 0
    while i < len(fmt):
        c = fmt[i]
        if c != "%":
            out += c
            i += 1
            continue
        i += 1
        spec = fmt[i]
        if spec == ".":
            n = int(fmt[i + 1])
            assert fmt[i + 2] == "f"
            out += "." + ("%09d" % ns)[:n]
            i += 3
            continue
        if spec == ":":
            assert fmt[i + 1] == "z"
            out += "%s%02d:%02d" % (sign, a // 60, a % 60)
            i += 2
            continue
        i += 1
        out += {"Y": "%04d" % y, "m": "%02d" % mo, "d": "%02d" % d, "H": "%02d" % h, "M": "%02d" % mi, "S": "%02d" % s,
                "s": "%d" % (epoch_ns // 10 ** 9), "z": "%s%02d%02d" % (sign, a // 60, a % 60),
                "Z": "%s%02d:%02d" % (sign, a // 60, a % 60), "%": "%"}[spec]
    return out


def key_to_ns(k):
    """b'YYYYMMDDTHHMMSS.nnnnnnnnn' (UTC) -> epoch ns"""
    s = k.decode()
    days = gen.days_from_civil(int(s[0:4]), int(s[4:6]), int(s[6:8]))
    sec = days * 86400 + int(s[9:11]) * 3600 + int(s[11:13]) * 60 + int(s[13:15])
    return sec * 10 ** 9 + int(s[16:25])


class MalformedReference(Exception):
    """a run on one source alone prints a message without its datetime field, or a different number of messages with
    and without the prepended fields: decoration is then not 'pure' and no reconstruction is possible"""


class Source:
    def __init__(self, arg, display, msgs):
        self.arg = arg            # path as passed
        self.display = display    # basename
        self.msgs = msgs          # list of (epoch_ns, raw bytes of the message as printed undecorated)


def split_lines(chunk):
    """lines of a message: each up to and including its newline; a trailing run of NUL bytes after the last newline
    (the accounting-record terminator, C08's finding) is returned separately"""
    tail = b""
    body = chunk
    stripped = chunk.rstrip(b"\x00")
    if stripped.endswith(b"\n") and len(stripped) < len(chunk):
        tail = chunk[len(stripped):]
        body = stripped
    lines = body.split(b"\n")
    out = [l + b"\n" for l in lines[:-1]]
    if lines[-1]:
        out.append(lines[-1])
    return out, tail


def load_source(work, arg, known_ns=None):
    """message list of one source from single-source runs: raw text from the undecorated run with a separator,
    instants from one UTC-decorated reference run (cross-checked against known instants when given)."""
    r = common.run_s4(["--color", "never", "-t", "+00:00", "--separator", SEP, arg], cwd=work)
    if r.rc not in (0, 1) or r.timed_out:
        raise common.MachineryError("reference run failed for %s" % arg)
    chunks = r.out.split(oracle.SEPB)
    last = chunks.pop()
    if last not in (b"", b"\n"):
        raise MalformedReference("%s alone with --separator %s: %d bytes follow the last separator (%r...): a message was printed without the separator after it" % (arg, SEP, len(last), last[:40]))
    try:
        ref, _tail, _ = oracle.single_source_messages(arg, work)
    except common.MachineryError as e:
        if "without datetime" not in str(e):
            raise
        raise MalformedReference("%s alone with %s: %s" % (arg, " ".join(oracle.DEC_ARGS), e))
    if len(ref) != len(chunks):
        raise MalformedReference("%s alone: %d messages with -n -u -d ..., %d messages undecorated" % (arg, len(ref), len(chunks)))
    ns = [key_to_ns(k) for k, _ in ref]
    src = Source(arg, os.path.basename(arg), list(zip(ns, chunks)))
    src.truth_mismatch = None
    if known_ns is not None and ns != known_ns:
        # the datetime field of the reference run itself is not the instant written: report it, and go on with the generator's instants
        src.truth_mismatch = (ns, known_ns)
        if len(known_ns) == len(chunks):
            src.msgs = list(zip(known_ns, chunks))
    return src


def expected_bytes(sources, opt):
    """rebuild the decorated stdout from the undecorated message lists"""
    per = [[(b"%020d" % ns, (i, ns, raw)) for ns, raw in s.msgs] for i, s in enumerate(sources)]
    merged = oracle.reference_merge(per)
    names = []
    for s in sources:
        names.append(s.display if opt["file"] == "-n" else s.arg)
    printed = [i for i, s in enumerate(sources) if s.msgs]
    width = max([dwidth(names[i]) for i in printed] or [0])
    psep = opt["psep"]
    out = b""
    last_idx = {i: len(s.msgs) - 1 for i, s in enumerate(sources)}
    seen = {i: -1 for i in range(len(sources))}
    for i, _k, (_i, ns, raw) in merged:
        seen[i] += 1
        prefix = ""
        if opt["file"]:
            nm = names[i]
            if opt["align"]:
                nm = nm + " " * (width - dwidth(nm))
            prefix += nm + psep
        if opt["tz"] is not None or opt["dfmt"] is not None:
            fmt = opt["dfmt"] if opt["dfmt"] is not None else "%Y%m%dT%H%M%S%.3f%z"
            off = opt["tz_min"] if opt["tz"] is not None else 0
            prefix += strftime(fmt, ns, off) + psep
        pb = prefix.encode()
        lines, tail = split_lines(raw)
        out += b"".join(pb + l for l in lines) + tail
        out += opt["sepb"]
        if seen[i] == last_idx[i] and lines and not lines[-1].endswith(b"\n") and not tail and sources[i].is_text:
            out += b"\n"
    return out


def lattice(tier):
    files = [None, "-n", "-p"]
    aligns = [False, True]
    if tier == "quick":
        tzs = [(None, 0), ("-u", 0), ("-z=-03:30", -210)]
        dfmts = [None, "%Y-%m-%dT%H:%M:%S%.6f%:z", "%Y-%m-%dT%H:%M:%S%.9f%:z__%Y%m%d__%H%M%S__epoch=%s"]
        pseps = [":", " - "]
        seps = [("", b""), ("XX", b"XX"), ("\\n\\t", b"\n\t"), ("~\\n", b"~\n")]
    else:
        tzs = [(None, 0), ("-u", 0), ("-l", 0), ("-z=-03:30", -210), ("-z=+05:45", 345), ("-z=+00", 0)]
        dfmts = [None, "%s", "%Y-%m-%dT%H:%M:%S%.6f%:z", "%Y%m%d %H%M%S%.9f %z", "%Y-%m-%dT%H:%M:%S%.9f%:z__%Y%m%d__%H%M%S__epoch=%s"]
        pseps = [":", "|", " - ", ""]
        seps = [("", b""), ("XX", b"XX"), ("\\0", b"\x00"), ("\\n\\t", b"\n\t"), ("~\\n", b"~\n"), ("\\\\", b"\\")]
    for f, al, (tz, tzmin), df, ps, (sa, sb) in itertools.product(files, aligns, tzs, dfmts, pseps, seps):
        if al and not f:
            continue
        yield {"file": f, "align": al, "tz": tz, "tz_min": tzmin, "dfmt": df, "psep": ps, "sep_arg": sa, "sepb": sb}


def argv_of(opt, color, paths, blocksz=None, fallback="+00:00"):
    a = ["--color", color, "-t=" + fallback]
    if blocksz:
        a += ["--blocksz", str(blocksz)]
    if opt["file"]:
        a.append(opt["file"])
    if opt["align"]:
        a.append("-w")
    if opt["tz"]:
        a.append(opt["tz"])
    if opt["dfmt"] is not None:
        a += ["-d", opt["dfmt"]]
    if opt["psep"] != ":":
        a += ["--prepend-separator", opt["psep"]]
    if opt["sep_arg"]:
        a += ["--separator", opt["sep_arg"]]
    return a + paths


def build_sets(work, tier):
    sets = []
    ms = 1000000
    # S1: text (multi-line, last message without final newline) + wide non-ASCII name + accounting records
    t1 = [(E * 1000 + 1000, b"alpha", [b"  continued", b""]), (E * 1000 + 3000, b"beta"), (E * 1000 + 3000, b"gamma")]
    d1 = gen.text_log(t1, final_newline=False)
    common.write_file(os.path.join(work, "s1", "a.log"), d1)
    t2 = [(E * 1000 + 2000, b"nihon"), (E * 1000 + 3000, b"go", [b"\ttabbed"])]
    common.write_file(os.path.join(work, "s1", "sub", "日本語のログ.log"), gen.text_log(t2))
    import layouts
    fat = layouts.record(layouts.layout("linux_x86_utmpx"), E + 4, 250000, b"K9q9", 9, fat=True)      # the longest text a record can print
    common.write_file(os.path.join(work, "s1", "x.wtmp"), gen.utmp_file([(E + 1, 500000, b"A"), (E + 3, 0, b"B")]) + fat + gen.utmp_file([(E + 5, 0, b"C")]))
    common.write_file(os.path.join(work, "s1", "é.log"), gen.text_log([(E * 1000 + 2500, b"accent")]))
    sets.append(("s1", ["a.log", "sub/日本語のログ.log", "x.wtmp", "é.log"],
                 {"a.log": [(E * 1000 + 1000) * ms, (E * 1000 + 3000) * ms, (E * 1000 + 3000) * ms]}))
    # S4: lines longer than the printer's write buffer; the widest-named source prints nothing
    shapes = [(10, 0), (2030, 0), (2031, 0), (2056, 0), (5, 2057), (5000, 3000), (7, 0),
              # messages longer than the write buffer in total whose lines each fit into it; lines just below the buffer size
              (1200, 1200), (1500, 700), (2020, 20), (600, 1450)] + [(n, 0) for n in range(1960, 2036, 5)]
    long_msgs = [(E * 1000 + 1000 * i, b"L" * n, [b"c" * m] if m else []) for i, (n, m) in enumerate(shapes)]
    common.write_file(os.path.join(work, "s4", "long.log"), gen.text_log(long_msgs))
    # a second source with a message between any two of long.log's
    common.write_file(os.path.join(work, "s4", "between.log"), gen.text_log([(E * 1000 + 1000 * i + 700, b"between %d" % i) for i in range(len(shapes))]))
    common.write_file(os.path.join(work, "s4", "the-widest-name-of-all-prints-nothing.log"), b"no timestamp in here\nnor here\n")
    common.write_file(os.path.join(work, "s4", "b.log"), gen.text_log([(E * 1000 + 1500, b"short")]))
    sets.append(("s4", ["long.log", "the-widest-name-of-all-prints-nothing.log", "b.log", "between.log"], {}))
    # S5: microsecond stamps; consecutive messages of one file inside the same millisecond (and the same microsecond),
    #     another file's messages merged in between
    us5 = [(1000, 100), (1000, 100), (1000, 101), (1000, 999), (1001, 0), (1001, 500), (2000, 0), (2000, 1)]
    l5 = [gen.ts_iso_off(E * 1000 + ms_, 0, us=(ms_ % 1000) * 1000 + u) + b" u%d" % i for i, (ms_, u) in enumerate(us5)]
    common.write_file(os.path.join(work, "s5", "micro.txt"), b"\n".join(l5) + b"\n")
    l5b = [gen.ts_iso_off(E * 1000 + 1000, 330, us=u) + b" v%d" % i for i, u in enumerate([100, 100, 550])]
    common.write_file(os.path.join(work, "s5", "m2.txt"), b"\n".join(l5b) + b"\n")
    sets.append(("s5", ["micro.txt", "m2.txt"], {"micro.txt": [((E * 1000 + ms_) * 1000 + u) * 1000 for ms_, u in us5]}))
    # S6: read with --blocksz 64: 65-byte lines, so the line start (and the end of the datetime) falls on every offset modulo 64
    #     (the first line is short: a first message that does not fit block zero is C02/C12's known finding, judged there)
    l6 = [gen.ts_iso_off(E * 1000 - 5, 0) + b" first"]
    for i in range(66):
        st = gen.ts_iso_off(E * 1000 + i * 7, 0)
        l6.append(st + b" " + (b"%02d" % i) + b"x" * (64 - len(st) - 3))
    assert all(len(x) == 64 for x in l6[1:])
    common.write_file(os.path.join(work, "s6", "sweep.txt"), b"\n".join(l6) + b"\n")
    l6b = []
    for i in range(20):     # multi-line messages whose second line starts at varying offsets
        st = gen.ts_iso_off(E * 1000 + i * 23 + 1, -210)
        l6b.append(st + b" m%d" % i + b"y" * (i % 7))
        l6b.append(b"  cont" + b"z" * (i * 3 % 11))
    common.write_file(os.path.join(work, "s6", "ml.txt"), b"\n".join(l6b) + b"\n")
    sets.append(("s6", ["sweep.txt", "ml.txt"], {}))
    # S2: journal + text; name widths 1 and 20
    import samples
    if samples.journal(os.path.join(work, "s2"), "u3", "j.journal"):
        common.write_file(os.path.join(work, "s2", "twentycharacters.log"), gen.text_log([(1680419210000, b"between")]))
        common.write_file(os.path.join(work, "s2", "w"), gen.text_log([(E * 1000, b"first", [b"more"])]))
        sets.append(("s2", ["j.journal", "twentycharacters.log", "w"], {}))
    if tier == "thorough":
        if samples.evtx(os.path.join(work, "s3"), "pnp", "k.evtx"):
            common.write_file(os.path.join(work, "s3", "t.log"), gen.text_log([(1678900000000, b"mid")]))
            sets.append(("s3", ["k.evtx", "t.log"], {}))
    return sets


def run(tier, seed, build=True):
    if build:
        common.build_real()
    res = common.Result(PROP, tier, "exploration", seed)
    work = common.scratch_dir(PROP)
    try:
        sets = build_sets(work, tier)
        opts = list(lattice(tier))
        if tier == "thorough":
            # the full lattice on the evtx set would take long; keep every 5th option tuple there
            pass
        common.log("[C13] %d source sets x %d option tuples x 2 colour settings" % (len(sets), len(opts)))
        for sname, paths, known in sets:
            wd = os.path.join(work, sname)
            sources = []
            malformed = None
            for p in paths:
                try:
                    s = load_source(wd, p, known.get(p))
                except MalformedReference as e:
                    malformed = str(e)
                    res.count()
                    res.violation({"symptom": "decorated-run-of-one-source-malformed", "sources": sname}, malformed[:400],
                                  {"engine": "E-CLI", "args": list(oracle.DEC_ARGS) + ["-t", "+00:00", p], "tree": sname, "truth_source": p})
                    break
                s.is_text = not (p.endswith(".wtmp") or p.endswith(".journal") or p.endswith(".evtx"))
                sources.append(s)
                if s.truth_mismatch:
                    res.violation({"symptom": "datetime-field-differs-from-written-instant", "sources": sname},
                                  "%s: -u -d %%Y%%m%%dT%%H%%M%%S%%.9f prints %s for messages written at %s (epoch ns)" % (p, s.truth_mismatch[0][:6], s.truth_mismatch[1][:6]),
                                  {"engine": "E-CLI", "args": list(oracle.DEC_ARGS) + ["-t", "+00:00", p], "tree": sname, "truth_source": p})
            if malformed:
                continue
            use = opts if sname != "s3" else opts[::7]
            bszs = [None] if sname not in ("s5", "s6") else [None, 64]
            if sname == "s6" and tier == "quick":
                use = opts[::3]
            items = [(o, c, b, "+00:00") for o in use for c in ("never", "always") for b in bszs]
            if sname == "s5":
                # every stamp of this set carries its zone: the fallback zone (-t) may then change nothing, in particular not
                # the zone the prepended datetime is rendered in when only -d FORMAT is given
                items += [(o, c, None, "-07:30") for o in use for c in ("never",)]

            def one(it):
                o, c, b, fb = it
                return it, common.run_s4(argv_of(o, c, paths, b, fb), cwd=wd)
            for (o, c, bsz, fb), r in common.pmap(one, items):
                res.count()
                exp = expected_bytes(sources, o)
                got = r.out if c == "never" else ESC.sub(b"", r.out)
                res.distinct((sname, bsz, fb, o["file"], o["align"], o["tz"], o["dfmt"], o["psep"], o["sep_arg"]))
                if r.timed_out or r.rc not in (0, 1) or got != exp:
                    # classify
                    feats = {"color": c, "file_field": o["file"] or "none", "align": o["align"], "has_dt": o["tz"] is not None or o["dfmt"] is not None,
                             "sources": sname, "blocksz": bsz or "default", "fallback_zone": fb}
                    if r.timed_out or r.rc not in (0, 1):
                        feats["symptom"] = "crash"
                    else:
                        gl, el = got.split(b"\n"), exp.split(b"\n")
                        feats["symptom"] = "bytes-differ"
                        for x, y in zip(gl, el):
                            if x != y:
                                kind = "record" if b"ut_type" in y else "other"
                                feats["first_differing_line_kind"] = kind
                                # file/date order swapped?
                                if o["file"] and feats["has_dt"] and sorted(x.split(o["psep"].encode())[:2]) == sorted(y.split(o["psep"].encode())[:2]) and o["psep"]:
                                    feats["symptom"] = "field-order-swapped"
                                elif o["align"] and x.replace(b" ", b"") == y.replace(b" ", b""):
                                    feats["symptom"] = "alignment-padding-differs"
                                    feats["wide_chars_in_names"] = any(dwidth(n) != len(n) for n in paths)
                                break
                    res.violation(feats, "options %s: stdout differs from the reconstruction (first difference: got %r / expected %r)" % (
                        " ".join(argv_of(o, c, paths, bsz, fb)), _first_diff(got, exp)[0][:90], _first_diff(got, exp)[1][:90]),
                        {"engine": "E-CLI", "args": argv_of(o, c, paths, bsz, fb), "tree": sname, "expected_stdout": common.b64(exp), "strip_colour": c == "always"})
        res.sample({"argv": argv_of(opts[len(opts) // 3], "always", ["a.log", "sub/日本語のログ.log", "x.wtmp", "é.log"])})
        res.coverage["rule"] = ("complete product of {none,-n,-p} x {-w} x zone options x -d formats x --prepend-separator x --separator x --color {never,always} over source sets mixing "
                                "multi-line text (last message without newline), accounting records, a journal (and an event log in the thorough tier), names of display width 1..20 incl. CJK; "
                                "oracle: decorated bytes rebuilt from the undecorated messages (own strftime, own display-width padding, reference merge); colour output compared after stripping ESC[..m. "
                                "distinct_nontrivial = distinct (source set, option tuple)")
    finally:
        shutil.rmtree(work, ignore_errors=True)
    res.assumptions += ["message instants of journal/evtx sources are taken from one UTC-decorated reference run; all other renderings are recomputed independently",
                        "the accounting-record terminator NUL (C08 finding) is carried through unprefixed"]
    return res.finish()


def _first_diff(a, b):
    la, lb = a.split(b"\n"), b.split(b"\n")
    for x, y in zip(la, lb):
        if x != y:
            return x, y
    return (la[len(lb):] or [b""])[0], (lb[len(la):] or [b""])[0]


def replay(path, build=True):
    import base64
    import json
    if build:
        common.build_real()
    r = json.load(open(path))["replay"]
    work = common.scratch_dir(PROP + "r")
    try:
        sets = build_sets(work, "thorough")
        wd = os.path.join(work, r["tree"])
        if r.get("truth_source"):
            known = [k for n, _p, k in sets if n == r["tree"]][0]
            try:
                src = load_source(wd, r["truth_source"], known.get(r["truth_source"]))
            except MalformedReference as e:
                common.log(str(e)[:400])
                common.log("VIOLATION property=%s replay=%s" % (PROP, path))
                return common.EXIT_VIOLATION
            common.log("datetime fields vs written instants: %s" % ("differ %s" % (src.truth_mismatch,) if src.truth_mismatch else "equal"))
            if src.truth_mismatch:
                common.log("VIOLATION property=%s replay=%s" % (PROP, path))
                return common.EXIT_VIOLATION
            return common.EXIT_OK
        x = common.run_s4(r["args"], cwd=wd)
        got = ESC.sub(b"", x.out) if r.get("strip_colour") else x.out
        exp = base64.b64decode(r["expected_stdout"])
        common.log("rc=%s equal=%s first difference: %r" % (x.rc, got == exp, _first_diff(got, exp)))
        if got != exp:
            common.log("VIOLATION property=%s replay=%s" % (PROP, path))
            return common.EXIT_VIOLATION
        return common.EXIT_OK
    finally:
        shutil.rmtree(work, ignore_errors=True)
