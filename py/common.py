"""Shared machinery for /verif/check: builds, scratch space, parallel runs of the real
binary, known-findings matching, replay files and evidence writing."""
import base64
import concurrent.futures as cf
import hashlib
import json
import os
import shutil
import subprocess
import sys
import time

ROOT = os.path.dirname(os.path.dirname(os.path.abspath(__file__)))
REPO = os.environ.get("S4_REPO", "/repo")
TARGET = os.path.join(ROOT, ".target")
HARNESS = os.path.join(ROOT, "harness")
NCPU = int(os.environ.get("VERIF_JOBS", os.cpu_count() or 4))
S4_REAL = os.path.join(TARGET, "real", "release", "s4")
S4V = os.path.join(TARGET, "harness", "release", "s4v")
SEQX = os.path.join(TARGET, "harness", "release", "seqx")

EXIT_OK, EXIT_VIOLATION, EXIT_MACHINERY = 0, 1, 2


class MachineryError(Exception):
    """Something in the verification machinery failed (never a verdict)."""


def log(*a):
    print(*a, flush=True)


def _cargo_env(extra=None):
    env = dict(os.environ)
    env["CARGO_NET_OFFLINE"] = "true"
    env.pop("RUSTFLAGS", None)
    if extra:
        env.update(extra)
    return env


def build_real():
    """Build the repository's own `s4` (hooks off, panic=abort as shipped; lto off and
    16 codegen units only to keep the build short)."""
    t0 = time.time()
    cmd = ["cargo", "build", "--release", "--offline", "--bin", "s4",
           "--config", "profile.release.lto=false",
           "--config", "profile.release.codegen-units=16",
           "--config", "profile.release.strip=false"]
    p = subprocess.run(cmd, cwd=REPO, env=_cargo_env({"CARGO_TARGET_DIR": os.path.join(TARGET, "real")}),
                       stdout=subprocess.PIPE, stderr=subprocess.STDOUT, text=True)
    if p.returncode != 0:
        sys.stdout.write(p.stdout[-6000:])
        raise MachineryError("build of /repo (s4-real) failed")
    log("[build] s4-real ok (%.1fs)" % (time.time() - t0))
    return S4_REAL


def build_harness(packages=("s4v", "seqx")):
    """Build the harness workspace against /repo with the hooks on."""
    t0 = time.time()
    lock_src = os.path.join(REPO, "Cargo.lock")
    cmd = ["cargo", "build", "--release", "--offline"]
    for p_ in packages:
        cmd += ["-p", p_]
    p = subprocess.run(cmd, cwd=HARNESS,
                       env=_cargo_env({"CARGO_TARGET_DIR": os.path.join(TARGET, "harness"),
                                       "RUSTFLAGS": "--cfg s4_verif"}),
                       stdout=subprocess.PIPE, stderr=subprocess.STDOUT, text=True)
    if p.returncode != 0:
        sys.stdout.write(p.stdout[-8000:])
        raise MachineryError("build of the harness workspace failed (lock source %s)" % lock_src)
    log("[build] harness %s ok (%.1fs)" % (",".join(packages), time.time() - t0))


def repo_head():
    try:
        return subprocess.run(["git", "-C", REPO, "rev-parse", "HEAD"], capture_output=True, text=True).stdout.strip()
    except Exception:
        return "unknown"


# ---------------------------------------------------------------------------------------
# scratch space

def scratch_dir(tag):
    base = "/dev/shm" if os.path.isdir("/dev/shm") and os.access("/dev/shm", os.W_OK) else os.path.join(ROOT, ".work")
    d = os.path.join(base, "s4verif-%s-%d" % (tag, os.getpid()))
    shutil.rmtree(d, ignore_errors=True)
    os.makedirs(d)
    return d


def write_file(path, data):
    os.makedirs(os.path.dirname(path), exist_ok=True)
    with open(path, "wb") as f:
        f.write(data)


# ---------------------------------------------------------------------------------------
# running the real binary

BASE_ENV = {"TZ": "UTC", "LANG": "C.UTF-8", "LC_ALL": "C.UTF-8", "PATH": os.environ.get("PATH", "/usr/bin:/bin"),
            "HOME": os.environ.get("HOME", "/root")}


class Run:
    __slots__ = ("argv", "rc", "out", "err", "wall", "timed_out", "signal")

    def __init__(self, argv, rc, out, err, wall, timed_out):
        self.argv, self.rc, self.out, self.err, self.wall, self.timed_out = argv, rc, out, err, wall, timed_out
        self.signal = -rc if rc is not None and rc < 0 else 0

    def brief(self):
        return {"argv": self.argv, "rc": self.rc, "stdout_len": len(self.out), "stderr_tail": self.err[-300:].decode("utf-8", "replace"),
                "timed_out": self.timed_out}


def run_s4(args, cwd=None, stdin=None, timeout=60, env=None, binary=None):
    """Run the real binary; never raises on failure of the subject."""
    e = dict(BASE_ENV)
    if env:
        e.update(env)
    argv = [binary or S4_REAL] + list(args)
    t0 = time.time()
    try:
        p = subprocess.run(argv, cwd=cwd, input=stdin if stdin is not None else b"", stdout=subprocess.PIPE, stderr=subprocess.PIPE,
                           timeout=timeout, env=e)
        return Run(list(args), p.returncode, p.stdout, p.stderr, time.time() - t0, False)
    except subprocess.TimeoutExpired as ex:
        return Run(list(args), None, ex.stdout or b"", ex.stderr or b"", time.time() - t0, True)


def pmap(fn, items, jobs=None):
    """Ordered parallel map with threads (work is in subprocesses)."""
    jobs = jobs or NCPU
    with cf.ThreadPoolExecutor(max_workers=jobs) as ex:
        return list(ex.map(fn, items))


def pmap_unordered(fn, items, jobs=None):
    jobs = jobs or NCPU
    with cf.ThreadPoolExecutor(max_workers=jobs) as ex:
        futs = [ex.submit(fn, it) for it in items]
        for f in cf.as_completed(futs):
            yield f.result()


# ---------------------------------------------------------------------------------------
# known findings

class Findings:
    """known_findings.json: {"findings":[{"property","id","where":{feature:value|[values]},"what"}],
    "fixed":[{"property","commit","what"}]}. A violation is a dict with a "features" dict; an entry
    matches when every key of `where` is present in the features with an equal value (or a member
    of the listed values). Never written at run time."""

    def __init__(self, path=None):
        path = path or os.path.join(ROOT, "known_findings.json")
        self.entries = []
        self.fixed = []
        if os.path.exists(path):
            d = json.load(open(path))
            self.entries = d.get("findings", [])
            self.fixed = d.get("fixed", [])

    def match(self, prop, features):
        for e in self.entries:
            if e["property"] != prop:
                continue
            ok = True
            for k, v in e["where"].items():
                if k not in features:
                    ok = False
                    break
                fv = features[k]
                if isinstance(v, list):
                    if fv not in v:
                        ok = False
                        break
                elif fv != v:
                    ok = False
                    break
            if ok:
                return e
        return None


# ---------------------------------------------------------------------------------------
# check result collection

def b64(b):
    return base64.b64encode(b).decode("ascii")


class Result:
    """Collects what one check run covered and found, writes evidence and replay files."""

    def __init__(self, prop, tier, level, seed=0):
        self.prop, self.tier, self.level, self.seed = prop, tier, level, seed
        self.t0 = time.time()
        self.violations = []      # dicts: {"features":{}, "what": str, "replay": {...}}
        self.coverage = {"evaluations": 0, "distinct_nontrivial": 0, "rule": "", "samples": [], "exhaustive": True}
        self.assumptions = []
        self.caps = []
        self.findings = Findings()
        self._distinct = set()
        self.machinery = []       # problems of the machinery met on the way (reported; fatal only without a verdict)

    # coverage helpers
    def count(self, n=1):
        self.coverage["evaluations"] += n

    def distinct(self, key):
        self._distinct.add(key)

    def sample(self, s, limit=6):
        if len(self.coverage["samples"]) < limit:
            self.coverage["samples"].append(s)

    def cap(self, what):
        self.caps.append(what)
        self.coverage["exhaustive"] = False

    def violation(self, features, what, replay):
        self.violations.append({"features": features, "what": what, "replay": replay})

    def finish(self):
        """Print KNOWN-FINDING / VIOLATION lines, write replay + evidence, return exit code."""
        known = {}
        unknown = []
        for v in self.violations:
            e = self.findings.match(self.prop, v["features"])
            if e is not None:
                known.setdefault(e["id"], [e, 0])
                known[e["id"]][1] += 1
            else:
                unknown.append(v)
        for fid, (e, n) in sorted(known.items()):
            log("KNOWN-FINDING: property=%s %s [%s; %d case(s) this run]" % (self.prop, e["what"], fid, n))
        rdir = os.path.join(ROOT, "replays", self.prop)
        shown = 0
        seen_classes = set()
        for v in unknown:
            cls = json.dumps(v["features"], sort_keys=True)
            if cls in seen_classes:
                continue
            seen_classes.add(cls)
            if shown >= 20:
                break
            os.makedirs(rdir, exist_ok=True)
            body = json.dumps({"property": self.prop, "what": v["what"], "features": v["features"], "replay": v["replay"]},
                              sort_keys=True, indent=1)
            h = hashlib.sha1(body.encode()).hexdigest()[:12]
            path = os.path.join(rdir, h + ".json")
            with open(path, "w") as f:
                f.write(body)
            log("VIOLATION property=%s replay=%s" % (self.prop, path))
            log("  what: %s" % v["what"])
            log("  features: %s" % json.dumps(v["features"], sort_keys=True))
            shown += 1
        cls_count = {}
        for v in unknown:
            k = json.dumps(v["features"], sort_keys=True)
            cls_count[k] = cls_count.get(k, 0) + 1
        if len(cls_count) > 1:
            log("unlisted violation classes (%d):" % len(cls_count))
            for k, n in sorted(cls_count.items(), key=lambda kv: -kv[1])[:80]:
                log("  %6d  %s" % (n, k))
        cov = self.coverage
        cov["unlisted_violation_classes"] = len(cls_count)
        if not cov.get("distinct_nontrivial"):
            cov["distinct_nontrivial"] = len(self._distinct)
        cov["caps_hit"] = self.caps
        cov["known_finding_cases"] = {k: n for k, (e, n) in known.items()}
        cov["unlisted_violation_cases"] = len(unknown)
        ev = {"property_id": self.prop, "tier": self.tier, "seed": int(self.seed), "level": self.level,
              "coverage": cov, "assumptions": self.assumptions, "wall_s": round(time.time() - self.t0, 2),
              "violations": len(unknown), "repo_head": repo_head()}
        validate_evidence(ev)
        os.makedirs(os.path.join(ROOT, "evidence"), exist_ok=True)
        with open(os.path.join(ROOT, "evidence", self.prop + ".json"), "w") as f:
            json.dump(ev, f, indent=1, sort_keys=True)
            f.write("\n")
        log("[%s] tier=%s evaluations=%d distinct=%d exhaustive=%s violations=%d known=%d wall=%.1fs" % (
            self.prop, self.tier, cov["evaluations"], cov["distinct_nontrivial"], cov.get("exhaustive"), len(unknown),
            sum(n for _, n in known.values()), time.time() - self.t0))
        if unknown:
            for m in self.machinery:
                log("MACHINERY-NOTE property=%s %s" % (self.prop, m))
            return EXIT_VIOLATION
        if self.machinery:
            raise MachineryError("; ".join(self.machinery[:3]))
        return EXIT_OK


def validate_evidence(ev):
    """Minimal structural validation (mirrors EVIDENCE.schema.json); machinery error if it fails."""
    for k in ("property_id", "tier", "seed", "level", "coverage", "wall_s"):
        if k not in ev:
            raise MachineryError("evidence lacks %s" % k)
    cov = ev["coverage"]
    lvl = ev["level"]
    mc_keys = all(k in cov for k in ("states", "transitions", "traces_validated_against_impl", "samples"))
    if lvl == "model_checking" and mc_keys:
        if cov["states"] < 1 or cov["transitions"] < 1 or not cov["samples"]:
            raise MachineryError("model_checking evidence with empty state space")
    else:
        if cov.get("evaluations", 0) < 1 or cov.get("distinct_nontrivial", 0) < 2 or not cov.get("samples"):
            raise MachineryError("evidence lacks evaluations/distinct_nontrivial(>=2)/samples: %r" % {k: cov.get(k) for k in ("evaluations", "distinct_nontrivial")})
        if lvl in ("exploration", "fault_enumeration") and not isinstance(cov.get("rule"), str):
            raise MachineryError("evidence lacks rule")
    schema = "/root/.vp/EVIDENCE.schema.json"
    if os.path.exists(schema) and shutil.which("python3-vt"):
        p = subprocess.run(["python3-vt", "-c",
                            "import json,sys,jsonschema; jsonschema.validate(json.load(sys.stdin), json.load(open(%r)))" % schema],
                           input=json.dumps(ev), text=True, capture_output=True)
        if p.returncode != 0:
            raise MachineryError("evidence does not validate against the schema: " + p.stderr[-600:])
