"""Reference models shared by several checks (kept deliberately dull)."""
import re

import common

SEP = "~~S4SEP~~"
SEPB = SEP.encode()
DTFMT = "%Y%m%dT%H%M%S%.9f"
DEC_ARGS = ["--color", "never", "-n", "-u", "-d", DTFMT, "--separator", SEP]
_DT_RE = re.compile(rb"(\d{8}T\d{6}\.\d{9})")


def split_messages(out):
    """stdout produced with DEC_ARGS -> list of message chunks (each without the trailing SEP)."""
    if not out:
        return []
    parts = out.split(SEPB)
    tail = parts.pop()
    return parts, tail


def message_dt(chunk):
    """the prepended UTC datetime of a decorated message chunk as a sortable bytes key"""
    m = _DT_RE.search(chunk)
    if not m:
        raise common.MachineryError("decorated message without datetime: %r" % chunk[:120])
    return m.group(1)


def single_source_messages(path, cwd, extra=(), binary=None, tz="+00:00"):
    """Run one source alone; return list of (dt_key, chunk) in print order, plus the run."""
    r = common.run_s4(list(DEC_ARGS) + ["-t", tz] + list(extra) + [path], cwd=cwd, binary=binary)
    if r.timed_out or r.rc not in (0, 1):
        raise common.MachineryError("single-source reference run failed for %s: rc=%s err=%r" % (path, r.rc, r.err[-300:]))
    parts, tail = split_messages(r.out) if r.out else ([], b"")
    return [(message_dt(c), c) for c in parts], tail, r


def reference_merge(per_source):
    """per_source: list (argument order) of lists of (dt_key, chunk). Repeatedly emit the earliest pending
    head; on equal instants the lowest argument index wins. Returns list of (src_index, dt, chunk)."""
    heads = [0] * len(per_source)
    out = []
    while True:
        best = None
        for i, msgs in enumerate(per_source):
            if heads[i] < len(msgs):
                k = msgs[heads[i]][0]
                if best is None or k < best[0]:
                    best = (k, i)
        if best is None:
            break
        i = best[1]
        out.append((i, per_source[i][heads[i]][0], per_source[i][heads[i]][1]))
        heads[i] += 1
    return out


def expected_output(per_source):
    return b"".join(c + SEPB for _, _, c in reference_merge(per_source))
