"""C19 — the summary agrees with what was printed. Engine: E-CLI."""
import itertools
import os
import re
import shutil

import common
import gen
import oracle
import c13

PROP = "C19"
ESC = c13.ESC
KV = re.compile(rb"^\s*([A-Za-z][A-Za-z \-]*?)\s*:\s*(.*)$")
UTCP = re.compile(rb"\((\d{4})-(\d\d)-(\d\d) (\d\d):(\d\d):(\d\d) \+00:00\)")


def parse_summary(err):
    """-> (program dict, {file basename: printed dict})"""
    prog, files = {}, {}
    cur, sect = None, None
    in_prog = False
    for ln in err.split(b"\n"):
        if ln.startswith(b"Program Summary:"):
            in_prog = True
            continue
        if ln.startswith(b"File: "):
            cur = ln[6:].strip().decode("utf-8", "replace")
            files[cur] = {}
            sect = None
            continue
        if not in_prog and cur is not None:
            s = ln.strip()
            if s.endswith(b":") and b" " not in s[:-1].strip() or s in (b"Printed:", b"Processed:", b"About:", b"Parsers:", b"Processing Stores:", b"Processing Drops:"):
                sect = s[:-1].decode()
                continue
            if sect == "Printed":
                m = KV.match(ln)
                if m:
                    files[cur][m.group(1).decode().strip()] = m.group(2).strip()
        elif in_prog:
            m = KV.match(ln)
            if m:
                prog[m.group(1).decode().strip()] = m.group(2).strip()
    return prog, files


def utc_epoch(v):
    m = UTCP.search(v or b"")
    if not m:
        return None
    y, mo, d, h, mi, s = [int(x) for x in m.groups()]
    return gen.days_from_civil(y, mo, d) * 86400 + h * 3600 + mi * 60 + s


def toint(v):
    try:
        return int((v or b"").split()[0])
    except Exception:
        return None


def fmt_bound_ns(ns):
    y, m, d, h, mi, s = gen.civil(ns // 10 ** 9)
    return "%04d%02d%02dT%02d%02d%02d.%06d" % (y, m, d, h, mi, s, (ns % 10 ** 9) // 1000)


def build_sets(work, tier):
    sets = c13.build_sets(work, tier)
    # sources that fail while being processed (their summaries carry an error): a .gz cut mid-stream (read with a small
    # block size it prints what could be decoded first), a file that is no gzip at all, beside a healthy log
    import hashlib
    E = gen.EPOCH_2000
    big = gen.text_log([(E * 1000 + i * 10, b"m%d " % i + hashlib.sha256(b"%d" % i).hexdigest().encode()) for i in range(400)])
    z = gen.gz(big)
    common.write_file(os.path.join(work, "s7", "trunc.log.gz"), z[:len(z) // 2])
    common.write_file(os.path.join(work, "s7", "bogus.gz"), b"this is not gzip\n")
    common.write_file(os.path.join(work, "s7", "ok.log"), gen.text_log([(E * 1000 + 5, b"ok1"), (E * 1000 + 2000, b"ok2", [b" more"])]))
    sets.append(("s7", ["trunc.log.gz", "bogus.gz", "ok.log"], {}))
    # a source whose own messages are not in time order (a late-written entry), beside an ordered one
    common.write_file(os.path.join(work, "s8", "ooo.log"), gen.text_log([(E * 1000 + 1000 * t, b"ooo %d" % t) for t in (3, 9, 5, 1, 12, 7)]))
    common.write_file(os.path.join(work, "s8", "ord.log"), gen.text_log([(E * 1000 + 1000 * t, b"ord %d" % t) for t in (4, 6, 13)]))
    sets.append(("s8", ["ooo.log", "ord.log"], {}))
    return sets


def run(tier, seed, build=True):
    if build:
        common.build_real()
    res = common.Result(PROP, tier, "exploration", seed)
    work = common.scratch_dir(PROP)
    try:
        sets = build_sets(work, tier)
        opts = []
        for f, al, tz, df, ps, (sa, sb) in itertools.product([None, "-n", "-p"], [False, True], [(None, 0), ("-u", 0)], [None, "%s"], [":", " - "],
                                                               [("", b""), ("XX", b"XX"), ("\\n", b"\n"), ("\u00a7\u2192", "\u00a7\u2192".encode("utf-8"))]):
            if al and not f:
                continue
            if tier == "quick" and (ps != ":" and sa == "\\n"):
                continue
            if tier == "quick" and sa == "\u00a7\u2192" and (al or df is not None or ps != ":"):
                continue
            opts.append({"file": f, "align": al, "tz": tz[0], "tz_min": tz[1], "dfmt": df, "psep": ps, "sep_arg": sa, "sepb": sb})
        for sname, paths, known in sets:
            wd = os.path.join(work, sname)
            sources = []
            skip = False
            for p in paths:
                try:
                    s = c13.load_source(wd, p, known.get(p))
                except c13.MalformedReference as e:
                    # decoration itself is broken for this source (C13's verdict): nothing can be reconstructed, but the
                    # comparisons that need no reconstruction (stdout with/without --summary, Printed bytes) still run
                    res.coverage.setdefault("sets_without_reconstruction", []).append(sname)
                    s = c13.Source(p, os.path.basename(p), [])
                s.is_text = not (p.endswith(".wtmp") or p.endswith(".journal") or p.endswith(".evtx"))
                s.kind = "fixedstruct" if p.endswith(".wtmp") else "journal" if p.endswith(".journal") else "evtx" if p.endswith(".evtx") else "text"
                sources.append(s)
            if skip:
                continue
            allns = sorted({ns for s in sources for ns, _ in s.msgs})
            # windows: none; partial (from the 2nd instant to the 2nd-last); empty (after everything)
            wins = [(None, None)]
            if len(allns) >= 3:
                wins.append((allns[1], allns[-2]))
                wins.append((allns[0], allns[0]))
            if allns:
                wins.append((allns[-1] + 5 * 10 ** 9, None))
            use = opts if sname != "s3" else opts[::5]
            items = [(o, c, w, bz) for o in use for c in ("never", "always") for w in wins for bz in ([None] if sname != "s7" else [None, 1024])]

            def one(it):
                o, c, (a, b), bz = it
                wargs = (["-a", fmt_bound_ns(a)] if a is not None else []) + (["-b", fmt_bound_ns(b)] if b is not None else [])
                args = c13.argv_of(o, c, paths)
                args = args[:3] + wargs + (["--blocksz", str(bz)] if bz else []) + args[3:]
                r_s = common.run_s4(["-s"] + args, cwd=wd)
                r_n = common.run_s4(args, cwd=wd)
                return it, args, r_s, r_n
            for (o, c, (a, b), bz), args, rs, rn in common.pmap(one, items):
                res.count()
                res.distinct((sname, str(o), c, a, b, bz))
                rep = {"engine": "E-CLI", "args": ["-s"] + args, "tree": sname}
                base = {"color": c, "sources": sname, "window": "none" if a is None and b is None else "bounded"}

                def bad(sym, what, **kw):
                    res.violation(dict(base, symptom=sym, **kw), "%s: %s" % (" ".join(["-s"] + args), what), rep)
                if rs.rc not in (0, 1) or rn.rc not in (0, 1) or rs.timed_out or rn.timed_out:
                    bad("crash", "rc %s / %s" % (rs.rc, rn.rc))
                    continue
                if rs.out != rn.out:
                    bad("stdout-changed-by-summary", "stdout with --summary differs from stdout without")
                if rn.err.strip() and a is None and b is None:
                    pass
                prog, files = parse_summary(rs.err)
                # windowed message lists
                wsrc = []
                for s in sources:
                    w = c13.Source(s.arg, s.display, [(ns, raw) for ns, raw in s.msgs if (a is None or ns >= a - a % 1000) and (b is None or ns <= b - b % 1000 + 999)])
                    w.is_text, w.kind = s.is_text, s.kind
                    wsrc.append(w)
                exp_out = c13.expected_bytes(wsrc, o)
                stripped = ESC.sub(b"", rs.out)
                if stripped != exp_out:
                    # decoration/window correctness belongs to C13/C03; the summary is then compared with what WAS printed
                    pass
                pb = toint(prog.get("Printed bytes"))
                actual = len(rs.out)
                if c == "never":
                    if pb != actual:
                        bad("total-bytes", "Printed bytes %s, stdout has %d bytes" % (pb, actual), off_by=(pb or 0) - actual)
                else:
                    if pb not in (actual, len(stripped)):
                        bad("total-bytes", "Printed bytes %s, stdout has %d bytes (%d without escape sequences)" % (pb, actual, len(stripped)))
                # message counts per kind
                n_kind = {"text": 0, "fixedstruct": 0, "journal": 0, "evtx": 0}
                for w in wsrc:
                    n_kind[w.kind] += len(w.msgs)
                for label, kind in (("Printed syslines", "text"), ("Printed fixedstruct", "fixedstruct"), ("Printed journal events", "journal"), ("Printed evtx events", "evtx")):
                    if stripped == exp_out and toint(prog.get(label)) != n_kind[kind]:
                        bad("message-count", "%s = %s, %d such messages were printed" % (label, toint(prog.get(label)), n_kind[kind]), counter=label)
                # lines
                if b"\n" not in o["sepb"]:
                    nl = stripped.count(b"\n")
                    pl = toint(prog.get("Printed lines"))
                    if pl != nl:
                        only_text = sum(raw.count(b"\n") + (0 if raw.endswith(b"\n") else 1) for w in wsrc if w.kind == "text" for _, raw in w.msgs)
                        bad("total-lines", "Printed lines %s, stdout has %d newline-terminated lines" % (pl, nl),
                            counts_only_text_lines=pl == only_text, non_text_messages_printed=any(n_kind[k] for k in ("fixedstruct", "journal", "evtx")))
                # per-file bytes + separators + supplied newlines = total
                if stripped == exp_out and c == "never":
                    per_file = 0
                    missing = False
                    for w in wsrc:
                        if not w.msgs:
                            # a source that printed nothing reports nothing printed
                            key0 = w.arg if w.arg in files else w.display if w.display in files else None
                            if key0 is None:
                                cand0 = [k for k in files if k.endswith(w.display)]
                                key0 = cand0[0] if cand0 else None
                            if key0 is not None and (toint(files[key0].get("bytes")) or 0) > 0:
                                bad("per-file-counts-of-a-silent-file", "file %s printed nothing but its `Printed:` section reports %s bytes" % (w.display, files[key0].get("bytes")))
                            continue
                        key = w.arg if w.arg in files else w.display if w.display in files else None
                        if key is None:
                            # summary prints the path as given
                            cand = [k for k in files if k.endswith(w.display)]
                            key = cand[0] if cand else None
                        if key is None or toint(files[key].get("bytes")) is None:
                            missing = True
                            continue
                        per_file += toint(files[key].get("bytes"))
                    nmsg = sum(len(w.msgs) for w in wsrc)
                    supplied = sum(1 for w in wsrc if w.is_text and w.msgs and not w.msgs[-1][1].endswith(b"\n"))
                    if not missing and pb is not None and per_file + nmsg * len(o["sepb"]) + supplied != pb:
                        bad("per-file-sum", "sum of per-file bytes %d + %d separators x %d + %d supplied newlines != Printed bytes %s" % (per_file, nmsg, len(o["sepb"]), supplied, pb))
                # first / last printed datetime
                pr = sorted(ns for w in wsrc for ns, _ in w.msgs)
                if stripped == exp_out and pr:
                    f_, l_ = utc_epoch(prog.get("Datetime printed first")), utc_epoch(prog.get("Datetime printed last"))
                    if f_ != pr[0] // 10 ** 9 or l_ != pr[-1] // 10 ** 9:
                        bad("first-last-datetime", "Datetime printed first/last %s/%s, printed messages span %s..%s" % (f_, l_, pr[0] // 10 ** 9, pr[-1] // 10 ** 9))
                fa, fb = utc_epoch(prog.get("Datetime filter -a")), utc_epoch(prog.get("Datetime filter -b"))
                if (a is not None and fa != a // 10 ** 9) or (b is not None and fb != b // 10 ** 9) or (a is None and fa is not None) or (b is None and fb is not None):
                    bad("filter-lines", "Datetime filter -a/-b lines %s/%s, passed %s/%s" % (fa, fb, a, b))
        res.sample({"argv": ["-s", "--color", "never", "-t", "+00:00", "-n", "-w", "--separator", "XX", "a.log", "sub/日本語のログ.log", "x.wtmp", "é.log"]})
        res.coverage["rule"] = ("C13's source sets x windows {none, partial, single instant, empty} x decoration options that change byte counts x colour {never,always}, each run with and without --summary; "
                                "oracle: stdout unchanged by --summary; Printed bytes = len(stdout); Printed lines = newline-terminated lines; per-kind message counts = messages printed; per-file bytes + separators "
                                "+ supplied newlines = total; first/last printed datetime and -a/-b lines as passed. distinct_nontrivial = distinct (source set, options, colour, window)")
    finally:
        shutil.rmtree(work, ignore_errors=True)
    res.assumptions += ["with --color always 'Printed bytes' may count either the raw or the escape-stripped bytes (both accepted)"]
    return res.finish()


def replay(path, build=True):
    import json
    if build:
        common.build_real()
    r = json.load(open(path))["replay"]
    work = common.scratch_dir(PROP + "r")
    try:
        build_sets(work, "thorough")
        x = common.run_s4(r["args"], cwd=os.path.join(work, r["tree"]))
        prog, files = parse_summary(x.err)
        common.log("stdout bytes=%d newlines=%d; summary: %s; per-file: %s" % (len(x.out), x.out.count(b"\n"), {k: v for k, v in prog.items() if k.startswith("Printed") or k.startswith("Datetime")}, files))
        return common.EXIT_OK
    finally:
        shutil.rmtree(work, ignore_errors=True)
