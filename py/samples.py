"""Sample journal / event-log files obtainable offline from /repo/logs (plain ones, or decompressed from the shipped
.xz/.gz when the plain file is absent or empty)."""
import bz2
import gzip
import lzma
import os
import shutil

import common

J = os.path.join(common.REPO, "logs", "programs", "journal")
EV = os.path.join(common.REPO, "logs", "programs", "evtx")


def _materialize(dst, plain, compressed):
    if os.path.exists(plain) and os.path.getsize(plain) > 0:
        shutil.copy(plain, dst)
        return True
    for path, opener in compressed:
        if os.path.exists(path) and os.path.getsize(path) > 0:
            with opener(path) as f, open(dst, "wb") as o:
                shutil.copyfileobj(f, o)
            return True
    return False


def journal(work, which, name=None):
    """which: 'u3' (3 entries) | 'rhe' (~2000 entries) | 'suse' | 'u16'. Returns path or None."""
    name = name or (which + ".journal")
    dst = os.path.join(work, name)
    os.makedirs(os.path.dirname(dst), exist_ok=True)
    if which == "u3":
        b = os.path.join(J, "Ubuntu22-user-1000x3.journal")
        ok = _materialize(dst, b, [(b + ".xz", lzma.open), (b + ".gz", gzip.open), (b + ".bz2", bz2.open)])
    elif which == "rhe":
        b = os.path.join(J, "RHE_91_system.journal")
        ok = _materialize(dst, b, [(b + ".xz", lzma.open), (b + ".gz", gzip.open), (b + ".bz2", bz2.open)])
    elif which == "suse":
        b = os.path.join(common.REPO, "logs", "OpenSUSE15", "journal", "f4e4621cbd954e73a519d0ca3e0d82c3",
                         "system@29912846da1c4d1d8d50dd155c553bdc-0000000000005156-00060c85794a2d40.journal")
        ok = _materialize(dst, b, [])
    elif which == "u16":
        b = os.path.join(common.REPO, "logs", "Ubuntu16", "6c6ab73d82464b9493892c81fc732b3a", "system.journal")
        ok = _materialize(dst, b, [])
    else:
        raise ValueError(which)
    return dst if ok else None


def evtx(work, which="pnp", name=None):
    name = name or (which + ".evtx")
    dst = os.path.join(work, name)
    os.makedirs(os.path.dirname(dst), exist_ok=True)
    if which == "pnp":
        b = os.path.join(EV, "Microsoft-Windows-Kernel-PnP%4Configuration.evtx")
        ok = _materialize(dst, b, [(b + ".xz", lzma.open), (b + ".gz", gzip.open)])
    else:
        ok = _materialize(dst, os.path.join(EV, "NoEvents.evtx"), [])
    return dst if ok else None
