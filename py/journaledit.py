"""Minimal editor for systemd journal files (format: systemd.io/JOURNAL_FILE_FORMAT): append DATA objects
(optionally XZ-compressed) and re-point the items of an ENTRY object to them. Used to derive journals with
long/compressed/multi-line fields and entries without MESSAGE from a shipped journal; `journalctl --file`
remains the independent reader of the edited files."""
import lzma
import struct
import hashlib

OBJECT_DATA, OBJECT_ENTRY = 1, 3
H_INCOMPAT, H_HEADER_SIZE, H_TAIL_OBJECT, H_N_OBJECTS, H_N_DATA = 12, 88, 136, 144, 208
DATA_PAYLOAD, ENTRY_ITEMS = 64, 64


def entry_offsets(b):
    hs, = struct.unpack_from("<Q", b, H_HEADER_SIZE)
    tail, = struct.unpack_from("<Q", b, H_TAIL_OBJECT)
    p, out = hs, []
    while p <= tail:
        sz, = struct.unpack_from("<Q", b, p + 8)
        if sz == 0:
            break
        if b[p] == OBJECT_ENTRY:
            out.append(p)
        p += (sz + 7) & ~7
    return out


def entry_items(b, e):
    sz, = struct.unpack_from("<Q", b, e + 8)
    out = []
    for i in range((sz - ENTRY_ITEMS) // 16):
        off, _h = struct.unpack_from("<QQ", b, e + ENTRY_ITEMS + 16 * i)
        dsz, = struct.unpack_from("<Q", b, off + 8)
        out.append((i, off, bytes(b[off + DATA_PAYLOAD: off + dsz])))
    return out


def append_data(b, entry_off, payload, xz):
    tail, nobj = struct.unpack_from("<QQ", b, H_TAIL_OBJECT)
    tsz, = struct.unpack_from("<Q", b, tail + 8)
    new = tail + ((tsz + 7) & ~7)
    blob = lzma.compress(payload, format=lzma.FORMAT_XZ, check=lzma.CHECK_NONE) if xz else payload
    h = int.from_bytes(hashlib.sha256(payload).digest()[:8], "little")
    obj = struct.pack("<BB6xQ", OBJECT_DATA, 1 if xz else 0, DATA_PAYLOAD + len(blob)) + struct.pack("<QQQQQQ", h, 0, 0, entry_off, 0, 1) + blob
    if any(b[new:new + len(obj) + 8]):
        raise ValueError("no free arena space")
    b[new:new + len(obj)] = obj
    struct.pack_into("<QQ", b, H_TAIL_OBJECT, new, nobj + 1)
    nd, = struct.unpack_from("<Q", b, H_N_DATA)
    struct.pack_into("<Q", b, H_N_DATA, nd + 1)
    if xz:
        inc, = struct.unpack_from("<I", b, H_INCOMPAT)
        struct.pack_into("<I", b, H_INCOMPAT, inc | 1)
    return new, h


def replace_field(b, entry_index, field, payload, xz=False):
    """replace the item of entry #entry_index whose payload starts with `field=` by a new DATA object"""
    e = entry_offsets(b)[entry_index]
    for i, off, pl in entry_items(b, e):
        if pl.startswith(field + b"="):
            noff, h = append_data(b, e, payload, xz)
            struct.pack_into("<QQ", b, e + ENTRY_ITEMS + 16 * i, noff, h)
            return True
    return False


def realtime_of(b, entry_index):
    return struct.unpack_from("<Q", b, entry_offsets(b)[entry_index] + 24)[0]


def set_realtime(b, entry_index, value):
    """overwrite the receive time (CLOCK_REALTIME, microseconds) stored in ENTRY object #entry_index"""
    struct.pack_into("<Q", b, entry_offsets(b)[entry_index] + 24, value)


def clock_variants(base, prefix):
    """journals whose receive times are not strictly increasing in journal order: a backwards clock step, ties"""
    n = len(entry_offsets(base))
    if n >= 3:
        b = bytearray(base)
        set_realtime(b, 1, realtime_of(b, 0) - 1300000)
        yield "nm_%s_backstep" % prefix, bytes(b)
        b = bytearray(base)
        set_realtime(b, 1, realtime_of(b, 0))
        yield "%s_tie" % prefix, bytes(b)
    if n >= 12:
        b = bytearray(base)
        # from entry n//3 on the clock was set back by 2.5 s for six entries; two of them share one value
        k = n // 3
        for i in range(k, k + 6):
            set_realtime(b, i, realtime_of(b, i) - 2500000 - (realtime_of(b, i) - realtime_of(b, k)) // 2)
        set_realtime(b, k + 3, realtime_of(b, k + 2))
        yield "nm_%s_step6" % prefix, bytes(b)


def variants(base):
    """yield (name, bytes) journals derived from the 3-entry base journal"""
    long_msg = b"MESSAGE=" + b"".join(b"long message part %04d; " % i for i in range(80))
    long_cmd = b"_CMDLINE=" + b"/usr/bin/prog " + b" ".join(b"--opt%03d=value" % i for i in range(45))
    for name, xz in (("longplain", False), ("longxz", True)):
        b = bytearray(base)
        try:
            ok = replace_field(b, 1, b"MESSAGE", long_msg, xz) and replace_field(b, 1, b"_CMDLINE", long_cmd, xz)
            ok = ok and replace_field(b, 2, b"MESSAGE", long_msg.replace(b"long", b"LONG"), xz) and replace_field(b, 2, b"_CMDLINE", long_cmd.replace(b"opt", b"OPT"), xz)
        except ValueError:
            ok = False
        if ok:
            yield name, bytes(b)
    b = bytearray(base)
    try:
        if replace_field(b, 1, b"MESSAGE", b"NOTAMESSAGE=entry without a message field"):
            yield "nomessage", bytes(b)
    except ValueError:
        pass
    b = bytearray(base)
    try:
        if replace_field(b, 0, b"MESSAGE", b"MESSAGE=first line\nsecond line\n  third line"):
            yield "multiline", bytes(b)
    except ValueError:
        pass
