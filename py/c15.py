"""C15 — directories and stdin path lists expand to the same run as explicit files. Engine: E-CLI."""
import itertools
import os
import shutil

import common
import gen

PROP = "C15"
E = gen.EPOCH_2000
NONLOG = {"mp3"}


def content(name):
    base = os.path.basename(name)
    tag = base.encode("utf-8")
    msgs = [(E * 1000 + 1000, b"one " + tag), (E * 1000 + 2000, b"two " + tag)]
    if base == "wtmp":
        return gen.utmp_file([(E + 1, 0, b"W1"), (E + 2, 0, b"W2")])
    if base.endswith(".gz"):
        return gen.gz(gen.text_log(msgs))
    if base.endswith(".tar"):
        return gen.tar([("m.log", gen.text_log([(E * 1000 + 1000, b"one tar-m"), (E * 1000 + 2000, b"two tar-m")])),
                        ("run.sh", gen.text_log([(E * 1000 + 1000, b"one tar-sh"), (E * 1000 + 2000, b"two tar-sh")]))])
    return gen.text_log(msgs)


NAMES = ["a.log", "b b.log", "é.log", "c.log.gz", "d.tar", "e.mp3", "f", "wtmp"]
SUBNAMES = ["a.log", "z.txt", "e.mp3", "wtmp"]


def trees(tier):
    """yield list of (relpath, kind[, target]) ; kind: file | linkfile | linkdir | dangling"""
    maxroot = 2 if tier == "quick" else 3
    roots = []
    for k in range(1, maxroot + 1):
        roots += list(itertools.combinations(NAMES, k))
    subs = [()] + [(s,) for s in SUBNAMES] + (list(itertools.combinations(SUBNAMES, 2)) if tier == "thorough" else [("a.log", "e.mp3"), ("wtmp", "z.txt")])
    for r in roots:
        for s in subs:
            ents = [(n, "file") for n in r] + [("sub/" + n, "file") for n in s]
            yield ents
    # symbolic links: to a file (same-type name), to a directory, dangling; and a link whose own name and
    # target name imply different types
    yield [("a.log", "file"), ("l.log", "linkfile", "a.log")]
    yield [("real/a.log", "file"), ("real/wtmp", "file"), ("ld", "linkdir", "real")]
    yield [("a.log", "file"), ("gone.log", "dangling", "nowhere")]
    yield [("wtmp", "file"), ("z.log", "linkfile", "wtmp")]
    yield [("a.log", "file"), ("lwtmp", "linkfile", "a.log")]
    # entries the walk cannot follow, at every position relative to followable siblings (first/last in a sub-directory
    # that has later siblings in its parent; two of them; at the top level)
    yield [("a.log", "file"), ("m/a.log", "file"), ("m/b-gone.log", "dangling", "nowhere"), ("z.log", "file"), ("zdir/zz.log", "file")]
    yield [("m/0gone.log", "dangling", "nowhere"), ("m/k.log", "file"), ("n/a.log", "file"), ("z.log", "file")]
    yield [("m/gone", "dangling", "../nowhere"), ("m/zz.log", "file"), ("n/gone2.log", "dangling", "nowhere"), ("n/k.log", "file"), ("o/a.log", "file")]
    yield [("0gone.log", "dangling", "nowhere"), ("a.log", "file"), ("sub/a.log", "file")]
    yield [("m/ld", "linkdir", "../real"), ("real/a.log", "file"), ("m/gone.log", "dangling", "nowhere"), ("z.log", "file")]
    # a directory whose name is a proper prefix of sibling names continuing with a byte below '/' (space, '-', '.'), also nested
    yield [("mail/info.log", "file"), ("mail/warn.log", "file"), ("mail b.log", "file"), ("mail-old.log", "file"), ("mail.log", "file")]
    yield [("x/mail/info.log", "file"), ("x/mail.log", "file"), ("x/mail-old.log", "file"), ("x.log", "file"), ("x/z.log", "file")]
    # names that end in white space (file and directory)
    yield [("messages ", "file"), ("a.log", "file"), ("old logs /b.log", "file"), ("tab.log\t", "file")]
    yield [(" lead.log", "file"), ("trail.log ", "file")]
    # a known non-log suffix under a compression suffix: still attempted when named explicitly
    yield [("a.log", "file"), ("g.mp3.gz", "file")]
    # names starting with a dot
    yield [(".h.log", "file"), ("a.log", "file")]
    yield [("a.log", "file"), (".hd/a.log", "file"), ("sub/.h2.log", "file"), ("sub/b.log", "file")]


def sort_key(rel):
    return [c.encode("utf-8") for c in rel.split("/")]


def run(tier, seed, build=True):
    if build:
        common.build_real()
    res = common.Result(PROP, tier, "exploration", seed)
    work = common.scratch_dir(PROP)
    try:
        cases = []
        for ti, ents in enumerate(trees(tier)):
            root = os.path.join(work, "t%d" % ti)
            os.makedirs(os.path.join(root, "D"))
            files = []       # (relpath below D, is symlink name mismatch?)
            for e in ents:
                rel, kind = e[0], e[1]
                p = os.path.join(root, "D", rel)
                os.makedirs(os.path.dirname(p), exist_ok=True)
                if kind == "file":
                    common.write_file(p, content(rel))
                    files.append(rel)
                elif kind == "linkfile":
                    os.symlink(e[2], p)
                    files.append(rel)
                elif kind == "linkdir":
                    os.symlink(e[2], p)
                    # files below the link appear under the link's name too
                    tgt = os.path.normpath(os.path.join(os.path.dirname(rel), e[2]))
                    for e2 in ents:
                        if e2[0].startswith(tgt + "/"):
                            files.append(rel + "/" + e2[0][len(tgt) + 1:])
                elif kind == "dangling":
                    os.symlink(e[2], p)
            files = sorted(set(files), key=sort_key)
            def nonlog(f):
                parts = f.lower().split(".")
                while len(parts) > 1 and parts[-1] in ("gz", "bz2", "xz", "lz4"):
                    parts.pop()           # the type is judged underneath compression suffixes
                return parts[-1] in NONLOG
            explicit = ["D/" + f for f in files if not nonlog(f)]
            has_mismatch_link = any(e[1] == "linkfile" and (e[0].endswith(".log") != e[2].endswith(".log")) for e in ents)
            cases.append((ti, root, ents, explicit, has_mismatch_link))
        common.log("[C15] %d directory trees" % len(cases))
        base = ["--color", "never", "-n", "-t", "+00:00"]

        def one(c):
            ti, root, ents, explicit, mm = c
            r_dir = common.run_s4(base + ["D"], cwd=root)
            r_exp = common.run_s4(base + explicit, cwd=root) if explicit else None
            r_in = common.run_s4(base + ["-"], cwd=root, stdin=("\n".join(explicit) + "\n").encode("utf-8")) if explicit else None
            # every contiguous split of the explicit list between argv and stdin
            splits = []
            if explicit and len(explicit) <= 5:
                for i in range(len(explicit) + 1):
                    for j in range(i, len(explicit) + 1):
                        if i == 0 and j == len(explicit):
                            continue
                        args = explicit[:i] + ["-"] + explicit[j:]
                        splits.append((args, explicit[i:j], common.run_s4(base + args, cwd=root, stdin=("\n".join(explicit[i:j]) + ("\n" if j > i else "")).encode("utf-8"))))
            return c, r_dir, r_exp, r_in, splits
        nsplit = 0
        for c, r_dir, r_exp, r_in, splits in common.pmap(one, cases):
            ti, root, ents, explicit, mm = c
            res.count(1 + (2 if explicit else 0) + len(splits))
            res.distinct(("tree", str(ents)))
            tree_desc = [list(e) for e in ents]
            feats = {"has_symlink": any(e[1] != "file" for e in ents), "link_name_and_target_name_imply_different_types": mm,
                     "has_tar": any(e[0].endswith(".tar") for e in ents), "has_nonlog_name": any(e[0].endswith(".mp3") for e in ents)}
            if not explicit:
                if r_dir.out:
                    res.violation(dict(feats, symptom="nonlog-printed"), "directory holding only known non-log names printed %d bytes" % len(r_dir.out), {"engine": "E-CLI", "tree": tree_desc, "args": base + ["D"]})
                continue
            for r in (r_dir, r_exp, r_in):
                if r.timed_out or r.rc not in (0, 1):
                    res.violation(dict(feats, symptom="crash"), "rc=%s" % r.rc, {"engine": "E-CLI", "tree": tree_desc})
            if r_dir.out != r_exp.out:
                res.violation(dict(feats, symptom="dir-vs-explicit"), "`s4 D` differs from `s4 %s` (%d vs %d bytes; first lines %r / %r)" % (
                    " ".join(explicit), len(r_dir.out), len(r_exp.out), r_dir.out.split(b"\n")[0][:50], r_exp.out.split(b"\n")[0][:50]),
                    {"engine": "E-CLI", "tree": tree_desc, "args": base + ["D"], "explicit": explicit})
            if r_in.out != r_exp.out:
                res.violation(dict(feats, symptom="stdin-vs-explicit"), "`printf paths | s4 -` differs from the explicit invocation", {"engine": "E-CLI", "tree": tree_desc, "args": base + ["-"], "stdin": explicit})
            for args, sin, r in splits:
                nsplit += 1
                if r.out != r_exp.out:
                    res.violation(dict(feats, symptom="split-vs-explicit", dash_is_last=args[-1] == "-"),
                                  "`s4 %s` with stdin %r differs from the explicit invocation" % (" ".join(args), sin), {"engine": "E-CLI", "tree": tree_desc, "args": base + args, "stdin": sin})
            # explicitly named non-log name must be attempted
            for e in ents:
                if (e[0].endswith(".mp3") or e[0].endswith(".mp3.gz")) and e[1] == "file":
                    r = common.run_s4(base + ["D/" + e[0]], cwd=root)
                    res.count()
                    if b"one " not in r.out:
                        res.violation(dict(feats, symptom="explicit-nonlog-not-attempted"), "explicitly named %s was not read" % e[0], {"engine": "E-CLI", "tree": tree_desc, "args": base + ["D/" + e[0]]})
        res.coverage["stdin_splits"] = nsplit
        res.sample({"tree": ["a.log", "b b.log", "sub/e.mp3", "sub/wtmp"], "runs": ["s4 D", "s4 D/a.log 'D/b b.log' D/sub/wtmp", "printf ... | s4 -", "s4 D/a.log - (stdin: the rest)"]})
        res.coverage["rule"] = ("every tree with <=2/3 root entries (subsets of 8 names: plain, spaces, non-ASCII, .gz, .tar with a .sh member, non-log .mp3, suffix-less, wtmp) x optional sub-directory "
                                "entries, plus symlink trees (to file, to directory, dangling, link name vs target name of different types); all files carry the same two instants so tie order shows the "
                                "file order; runs: `s4 DIR`, explicit sorted list, stdin list, and every contiguous split of the list between argv and stdin. distinct_nontrivial = distinct trees")
    finally:
        shutil.rmtree(work, ignore_errors=True)
    res.assumptions += ["'sorted path order' = component-wise byte order, depth first"]
    return res.finish()


def replay(path, build=True):
    import json
    if build:
        common.build_real()
    j = json.load(open(path))
    r = j["replay"]
    work = common.scratch_dir(PROP + "r")
    try:
        os.makedirs(os.path.join(work, "D"))
        for e in r["tree"]:
            p = os.path.join(work, "D", e[0])
            os.makedirs(os.path.dirname(p), exist_ok=True)
            if e[1] == "file":
                common.write_file(p, content(e[0]))
            else:
                os.symlink(e[2], p)
        sin = r.get("stdin")
        x = common.run_s4(r["args"], cwd=work, stdin=("\n".join(sin) + "\n").encode("utf-8") if sin else None)
        common.log("rc=%s stdout:\n%s" % (x.rc, x.out.decode("utf-8", "replace")[:1500]))
        if r.get("explicit"):
            y = common.run_s4(r["args"][:-1] + r["explicit"], cwd=work)
            common.log("explicit run equal: %s" % (x.out == y.out))
            if x.out != y.out:
                common.log("VIOLATION property=%s replay=%s" % (PROP, path))
                return common.EXIT_VIOLATION
        return common.EXIT_OK
    finally:
        shutil.rmtree(work, ignore_errors=True)
