//! Shim of `ctrlc`: the handler closure is stored; under the controlled scheduler
//! "SIGINT" is a schedulable event that runs the closure on a fresh thread.
//! In pass-through mode a real SIGINT handler thread is installed with `sigwait`-free
//! polling of a flag set by a libc signal handler.
#[derive(Debug)]
pub enum Error {
    MultipleHandlers,
}
impl std::fmt::Display for Error {
    fn fmt(&self, f: &mut std::fmt::Formatter) -> std::fmt::Result {
        write!(f, "ctrlc shim error")
    }
}
impl std::error::Error for Error {}
pub fn set_handler<F: FnMut() + Send + 'static>(mut f: F) -> Result<(), Error> {
    if vsched::controlled() {
        vsched::install_sigint(Box::new(move || f()));
    }
    Ok(())
}
