//! C04 helper: dump the built-in datetime patterns (regex text, range, format flags) so that the Python
//! side can locate the named fields inside the project's own documented examples.
use s4lib::data::datetime::DATETIME_PARSE_DATAS;
use serde_json::json;

pub fn dump() {
    let mut v = vec![];
    for (i, d) in DATETIME_PARSE_DATAS.iter().enumerate() {
        v.push(json!({
            "index": i,
            "regex": d.regex_pattern,
            "range": [d.range_regex.start, d.range_regex.end],
            "line_num": d._line_num,
            "dtfs": format!("{:?}", d.dtfs),
            "cgn_first": d.cgn_first,
            "cgn_last": d.cgn_last,
        }));
    }
    println!("{}", serde_json::Value::Array(v));
}

/// For each (pattern index, line) of the input JSON file print the spans of the pattern's named groups in the line
/// (the regex is used only to locate the fields of a known-good documented example).
pub fn spans(path: &str) {
    let v: serde_json::Value = serde_json::from_str(&std::fs::read_to_string(path).unwrap()).unwrap();
    let mut out = vec![];
    let mut cache: std::collections::HashMap<usize, regex::bytes::Regex> = std::collections::HashMap::new();
    for item in v.as_array().unwrap() {
        let idx = item[0].as_u64().unwrap() as usize;
        let line = item[1].as_str().unwrap().as_bytes();
        let d = &DATETIME_PARSE_DATAS[idx];
        let re = cache.entry(idx).or_insert_with(|| regex::bytes::Regex::new(d.regex_pattern).unwrap());
        let end = std::cmp::min(d.range_regex.end, line.len());
        let start = std::cmp::min(d.range_regex.start, end);
        let mut groups = vec![];
        if let Some(c) = re.captures(&line[start..end]) {
            for name in re.capture_names().flatten() {
                if let Some(m) = c.name(name) {
                    groups.push(json!([name, start + m.start(), start + m.end()]));
                }
            }
        }
        out.push(json!({"index": idx, "groups": groups}));
    }
    println!("{}", serde_json::Value::Array(out));
}
