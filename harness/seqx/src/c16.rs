//! C16 — the reader for a file is chosen from its name alone, for every name.
use crate::out::{hash64, Report};
use rayon::prelude::*;
use s4lib::common::{FileType, FileTypeArchive, FileTypeFixedStruct};
use s4lib::readers::filepreprocessor::{path_to_filetype, PathToFiletypeResult};
use serde_json::json;
use std::ffi::OsString;
use std::os::unix::ffi::OsStringExt;
use std::path::Path;

#[derive(PartialEq, Eq, Debug, Clone, Copy, Hash)]
pub enum Rd {
    Utmp,
    Utmpx,
    Lastlog,
    Lastlogx,
    Acct,
    AcctV3,
    Journal,
    Evtx,
    Text,
    Tar,
    Unparsable,
}
#[derive(PartialEq, Eq, Debug, Clone, Copy, Hash)]
pub enum Ct {
    Normal,
    Gz,
    Bz2,
    Xz,
    Lz4,
    Tar,
}

const JUNK: &[char] = &['~', '-', ',', '?', ';', '.'];

fn compression(lc: &str) -> Option<Ct> {
    match lc {
        "gz" | "gzip" => Some(Ct::Gz),
        "bz2" => Some(Ct::Bz2),
        "xz" | "xzip" => Some(Ct::Xz),
        "lz4" => Some(Ct::Lz4),
        _ => None,
    }
}

fn typeword(lc: &str) -> Option<Rd> {
    match lc {
        "utmp" | "wtmp" | "btmp" => Some(Rd::Utmp),
        "utmpx" | "wtmpx" | "btmpx" => Some(Rd::Utmpx),
        "lastlog" => Some(Rd::Lastlog),
        "lastlogx" => Some(Rd::Lastlogx),
        "acct" => Some(Rd::Acct),
        "pacct" => Some(Rd::AcctV3),
        "journal" => Some(Rd::Journal),
        "evtx" => Some(Rd::Evtx),
        "log" | "txt" | "text" => Some(Rd::Text),
        "tar" => Some(Rd::Tar),
        _ => None,
    }
}

/// The statement, transcribed: strip junk, read components from the right, skip numeric/unknown,
/// one compression suffix selects the container, first type word selects the reader, else text.
pub fn reference(name: &str) -> (Rd, Ct) {
    let t = name.trim_matches(JUNK);
    let mut ct = Ct::Normal;
    if t.is_empty() {
        return (Rd::Text, ct);
    }
    for c in t.split('.').rev() {
        let lc = c.to_ascii_lowercase();
        if let Some(k) = compression(&lc) {
            if ct == Ct::Normal {
                ct = k;
            }
            continue;
        }
        if let Some(r) = typeword(&lc) {
            return (r, ct);
        }
    }
    (Rd::Text, ct)
}

fn ct_of(a: FileTypeArchive) -> Ct {
    match a {
        FileTypeArchive::Normal => Ct::Normal,
        FileTypeArchive::Gz => Ct::Gz,
        FileTypeArchive::Bz2 => Ct::Bz2,
        FileTypeArchive::Xz => Ct::Xz,
        FileTypeArchive::Lz4 => Ct::Lz4,
        FileTypeArchive::Tar => Ct::Tar,
    }
}

pub fn classify(path: &Path, unparseable_are_text: bool) -> (Rd, Ct) {
    match path_to_filetype(path, unparseable_are_text) {
        PathToFiletypeResult::Archive(_, a) => (Rd::Tar, ct_of(a)),
        PathToFiletypeResult::Filetype(ft) => match ft {
            FileType::Evtx { archival_type } => (Rd::Evtx, ct_of(archival_type)),
            FileType::Journal { archival_type } => (Rd::Journal, ct_of(archival_type)),
            FileType::Text { archival_type, .. } => (Rd::Text, ct_of(archival_type)),
            FileType::FixedStruct { archival_type, fixedstruct_type } => (
                match fixedstruct_type {
                    FileTypeFixedStruct::Acct => Rd::Acct,
                    FileTypeFixedStruct::AcctV3 => Rd::AcctV3,
                    FileTypeFixedStruct::Lastlog => Rd::Lastlog,
                    FileTypeFixedStruct::Lastlogx => Rd::Lastlogx,
                    FileTypeFixedStruct::Utmp => Rd::Utmp,
                    FileTypeFixedStruct::Utmpx => Rd::Utmpx,
                },
                ct_of(archival_type),
            ),
            FileType::Unparsable => (Rd::Unparsable, Ct::Normal),
        },
    }
}

const TYPEW: &[&str] = &[
    "utmp", "wtmp", "btmp", "utmpx", "wtmpx", "btmpx", "lastlog", "lastlogx", "acct", "pacct", "journal", "evtx", "log", "txt",
    "text", "tar",
];
const COMPW: &[&str] = &["gz", "gzip", "bz2", "xz", "xzip", "lz4"];
const OTHERW: &[&str] = &["1", "20230101", "old", "foo", "messages", "syslog", "b", "Z", "_"];
const JUNKS: &[&str] = &["", "~", "-", ".", ",", "?", ";", "~~", "-.", ",,,", ";~-"];

fn casev(s: &str, mode: usize) -> String {
    match mode {
        0 => s.to_string(),
        1 => s.to_ascii_uppercase(),
        _ => {
            // Title case per component
            s.split('.')
                .map(|c| {
                    let mut cs = c.chars();
                    match cs.next() {
                        Some(f) => f.to_ascii_uppercase().to_string() + cs.as_str(),
                        None => String::new(),
                    }
                })
                .collect::<Vec<_>>()
                .join(".")
        }
    }
}

fn check_name(rep: &Report, name: &str) {
    rep.eval(1);
    let exp = reference(name);
    let got = classify(Path::new(&format!("/d/{}", name)), true);
    if exp != got {
        // discriminating features for the finding classes
        let t = name.trim_matches(JUNK);
        let leftmost = t.split('.').next().unwrap_or("").to_ascii_lowercase();
        let tail = &name[name.trim_end_matches(JUNK).len()..];
        let trailing_dot = tail.contains('.');
        // the bare stem `evtx` is still misread once all junk is stripped
        let stem_evtx = leftmost == "evtx" && exp.0 == Rd::Evtx && classify(Path::new(&format!("/d/{}", t)), true) != exp;
        // canonical form: junk stripped at both ends and the stem turned into a suffix
        let canonical_agrees = classify(Path::new(&format!("/d/x.{}", t)), true) == exp;
        rep.violation(
            json!({"part":"names","trailing_dot": trailing_dot, "stem_evtx": stem_evtx, "canonical_form_agrees": canonical_agrees}),
            format!("name {:?}: expected {:?}, path_to_filetype says {:?}", name, exp, got),
            json!({"engine":"E-SEQ","sub":"c16","name": name}),
        );
    }
}

pub fn run(tier: &str) {
    let rep = Report::new();
    let maxc = if tier == "quick" { 3 } else { 4 };
    let mut words: Vec<&str> = vec![];
    words.extend(TYPEW);
    words.extend(COMPW);
    words.extend(OTHERW);
    let nw = words.len();
    // all component sequences of length 1..=maxc
    let mut seqs: Vec<Vec<usize>> = vec![];
    for len in 1..=maxc {
        let total = nw.pow(len as u32);
        for mut i in 0..total {
            let mut v = Vec::with_capacity(len);
            for _ in 0..len {
                v.push(i % nw);
                i /= nw;
            }
            // domain cut: at most one compression suffix; neither a compression suffix nor `tar` as the
            // leftmost component (a file called just `gz` or `tar` has no suffix; the statement does not
            // list `tar` among the type words a bare name may consist of)
            let ncomp = v.iter().filter(|&&w| COMPW.contains(&words[w])).count();
            if ncomp > 1 || COMPW.contains(&words[v[0]]) || words[v[0]] == "tar" {
                continue;
            }
            seqs.push(v);
        }
    }
    let junks: &[&str] = if maxc >= 4 { &JUNKS[..9] } else { JUNKS };
    seqs.par_iter().for_each(|v| {
        let base = v.iter().map(|&w| words[w]).collect::<Vec<_>>().join(".");
        rep.distinct(hash64(&base));
        for mode in 0..3 {
            let b = casev(&base, mode);
            for jp in junks {
                for js in junks {
                    let name = format!("{}{}{}", jp, b, js);
                    check_name(&rep, &name);
                }
            }
        }
    });
    // part 1b: a component with a non-UTF-8 byte is just an unrecognised component: it is skipped like `foo`
    seqs.par_iter().for_each(|v| {
        if v.len() > 2 {
            return;
        }
        let base = v.iter().map(|&w| words[w]).collect::<Vec<_>>().join(".");
        for stem in [&b"caf\xe9"[..], &b"\xff"[..], &b"a\xc3"[..]] {
            for pos in 0..2 {
                // non-UTF-8 component as the stem (leftmost) or as a rotation-like suffix
                let mut name: Vec<u8> = vec![];
                if pos == 0 {
                    name.extend_from_slice(stem);
                    name.push(b'.');
                    name.extend_from_slice(base.as_bytes());
                } else {
                    name.extend_from_slice(b"x.");
                    name.extend_from_slice(base.as_bytes());
                    name.push(b'.');
                    name.extend_from_slice(stem);
                }
                rep.eval(1);
                let exp = reference(&format!("x.{}", base));
                let mut p = b"/d/".to_vec();
                p.extend_from_slice(&name);
                let got = classify(Path::new(&OsString::from_vec(p)), true);
                if got != exp {
                    rep.violation(
                        json!({"part":"non-utf8-component","position": if pos == 0 { "stem" } else { "suffix" }}),
                        format!("name bytes {:?}: expected {:?} (the non-UTF-8 component is an unrecognised component), path_to_filetype says {:?}", String::from_utf8_lossy(&name), exp, got),
                        json!({"engine":"E-SEQ","sub":"c16","name_b64": crate::out::b64(&name)}),
                    );
                }
            }
        }
    });
    rep.sample(json!({"name":"~Wtmp.20230101.GZ-","reference": format!("{:?}", reference("~Wtmp.20230101.GZ-"))}));
    rep.sample(json!({"name":"foo.journal.old.xz","reference": format!("{:?}", reference("foo.journal.old.xz"))}));

    // part 2: arbitrary short byte strings: termination, no panic, small stack
    let alpha: &[u8] = &[b'.', b'~', b'-', b'a', b'1', b'G', b'z', 0xFF];
    let maxl = if tier == "quick" { 6 } else { 7 };
    let mut all: Vec<Vec<u8>> = vec![vec![]];
    let mut frontier: Vec<Vec<u8>> = vec![vec![]];
    for _ in 0..maxl {
        let mut next = Vec::with_capacity(frontier.len() * alpha.len());
        for f in &frontier {
            for &a in alpha {
                let mut g = f.clone();
                g.push(a);
                next.push(g);
            }
        }
        all.extend(next.iter().cloned());
        frontier = next;
    }
    let chunks: Vec<&[Vec<u8>]> = all.chunks(4096).collect();
    chunks.par_iter().for_each(|chunk| {
        let chunk: Vec<Vec<u8>> = chunk.to_vec();
        let n = chunk.len() as u64;
        let h = std::thread::Builder::new()
            .stack_size(256 * 1024)
            .spawn(move || {
                let mut bad: Vec<(Vec<u8>, String)> = vec![];
                for name in chunk.iter() {
                    let mut p = b"/d/".to_vec();
                    p.extend_from_slice(name);
                    let os = OsString::from_vec(p);
                    for uat in [true, false] {
                        let r = std::panic::catch_unwind(|| classify(Path::new(&os), uat));
                        if r.is_err() {
                            bad.push((name.clone(), "panic".to_string()));
                        }
                    }
                }
                bad
            })
            .unwrap();
        match h.join() {
            Ok(bad) => {
                for (name, what) in bad {
                    rep.violation(
                        json!({"part":"arbitrary","symptom": what}),
                        format!("path_to_filetype panicked on name bytes {:?}", name),
                        json!({"engine":"E-SEQ","sub":"c16","name_b64": crate::out::b64(&name)}),
                    );
                }
            }
            Err(_) => rep.violation(
                json!({"part":"arbitrary","symptom":"thread-died"}),
                "classification thread died (stack overflow?)".to_string(),
                json!({"engine":"E-SEQ","sub":"c16"}),
            ),
        }
        rep.eval(2 * n);
    });
    rep.extra("arbitrary_names", json!(all.len()));
    rep.extra("component_sequences", json!(seqs.len()));
    rep.finish(
        true,
        "part 1: every sequence of <=N components from {type words, compression suffixes, tar, numeric, unknown} (at most one compression suffix, never leftmost) x 3 case variants x junk prefix x junk suffix, compared with a right-to-left reference classifier; part 2: every byte string of length <=L over {. ~ - a 1 G z 0xFF} plus very long names, both modes, on a 256 KiB stack (termination, no panic). distinct_nontrivial = distinct component sequences",
    );
}

/// Very long names (up to PATH_MAX bytes), classified on a thread with the main thread's default
/// stack size (8 MiB), where the real program classifies names. Run as a separate process by the
/// driver because a stack overflow cannot be caught.
pub fn run_long() {
    let mut all: Vec<Vec<u8>> = vec![];
    for n in [255usize, 1024, 4096] {
        for pat in [&b".gz"[..], &b".1"[..], &b"~"[..], &b"."[..], &b".foo"[..], &b".a.1"[..]] {
            let mut v = vec![];
            while v.len() + pat.len() <= n {
                v.extend_from_slice(pat);
            }
            all.push(v.clone());
            let mut w = b"utmp".to_vec();
            w.extend_from_slice(&v[..v.len().saturating_sub(4)]);
            all.push(w);
        }
    }
    let n = all.len();
    let h = std::thread::Builder::new()
        .stack_size(8 * 1024 * 1024)
        .spawn(move || {
            for name in all.iter() {
                let mut p = b"/d/".to_vec();
                p.extend_from_slice(name);
                let os = OsString::from_vec(p);
                for uat in [true, false] {
                    let _ = classify(Path::new(&os), uat);
                }
            }
        })
        .unwrap();
    h.join().unwrap();
    println!("{}", json!({"kind":"long-ok","names": n}));
}

pub fn replay(name: &str) -> bool {
    let exp = reference(name);
    let got = classify(Path::new(&format!("/d/{}", name)), true);
    println!("name {:?}: reference {:?}, path_to_filetype {:?}", name, exp, got);
    exp == got
}
