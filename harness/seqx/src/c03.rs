//! C03 — a datetime window selects exactly the messages inside it (text logs: plain = binary search,
//! gz = linear search).
use crate::c02::{cleanup, scratch, write_tmp};
use crate::out::{b64, hash64, Report};
use crate::text::*;
use rayon::prelude::*;
use s4lib::common::{FileType, FileTypeArchive, FileTypeTextEncoding};
use serde_json::json;
use std::io::Write;

pub fn filetype_text_gz() -> FileType {
    FileType::Text { archival_type: FileTypeArchive::Gz, encoding_type: FileTypeTextEncoding::Utf8Ascii }
}

pub fn gzip(data: &[u8]) -> Vec<u8> {
    let mut e = flate2::write::GzEncoder::new(Vec::new(), flate2::Compression::new(6));
    e.write_all(data).unwrap();
    e.finish().unwrap()
}

fn nondecreasing(dom: &[i64], len: usize) -> Vec<Vec<i64>> {
    fn rec(dom: &[i64], len: usize, start: usize, cur: &mut Vec<i64>, out: &mut Vec<Vec<i64>>) {
        if cur.len() == len {
            out.push(cur.clone());
            return;
        }
        for i in start..dom.len() {
            cur.push(dom[i]);
            rec(dom, len, i, cur, out);
            cur.pop();
        }
    }
    let mut out = vec![];
    rec(dom, len, 0, &mut vec![], &mut out);
    out
}

fn filler(n: usize, k: usize) -> Vec<u8> {
    const ALPHA: &[u8] = b"abc defg hijk";
    (0..n).map(|i| ALPHA[(i * 5 + k) % ALPHA.len()]).collect()
}

pub fn run(tier: &str) {
    let rep = Report::new();
    let dir = scratch();
    let quick = tier == "quick";
    let base = EPOCH_2000 * 1000;
    // instants (ms): two distinct seconds, a 1 ms neighbour, a far one
    let dom: Vec<i64> = vec![base + 10_000, base + 11_000, base + 11_001, base + 20_000];
    let maxn = if quick { 5 } else { 7 };
    // message length patterns (bytes of body after the stamp), first message always short so that the
    // first stamped line lies inside block zero at every block size used
    let pats: Vec<Vec<usize>> = vec![vec![3], vec![3, 38], vec![3, 38, 130], vec![3, 130, 3]];
    let mut files: Vec<TextFile> = vec![];
    for n in 1..=maxn {
        for seq in nondecreasing(&dom, n) {
            for (pi, pat) in pats.iter().enumerate() {
                if n == 1 && pi > 0 {
                    continue;
                }
                let specs: Vec<MsgSpec> = seq
                    .iter()
                    .enumerate()
                    .map(|(j, &ms)| {
                        let l = if j == 0 { 3 } else { pat[j % pat.len()] };
                        let mut body = vec![b' '];
                        body.extend(filler(l, j));
                        let cont = if l == 130 { vec![filler(70, j + 1)] } else { vec![] };
                        MsgSpec { ms, body, cont }
                    })
                    .collect();
                files.push(build(&[], &specs, b"\n", true));
            }
        }
    }
    // window bounds: none, each instant, +-1 ms, +-1 s
    let mut bounds: Vec<Option<i64>> = vec![None];
    for &d in &dom {
        for delta in [0i64, -1, 1, -1000, 1000] {
            bounds.push(Some(d + delta));
        }
    }
    bounds.sort();
    bounds.dedup();
    let mut windows: Vec<(Option<i64>, Option<i64>)> = vec![];
    for &a in &bounds {
        for &b in &bounds {
            if let (Some(x), Some(y)) = (a, b) {
                if x > y {
                    continue;
                }
            }
            if a.is_none() && b.is_none() {
                continue;
            }
            windows.push((a, b));
        }
    }
    let bszs: Vec<u64> = if quick { vec![64, 100, 65536] } else { vec![64, 65, 100, 128, 65536] };
    rep.extra("files", json!(files.len()));
    rep.extra("windows", json!(windows.len()));
    rep.extra("block_sizes", json!(bszs));
    rep.sample(json!({"file": String::from_utf8_lossy(&files[files.len() / 2].data), "window_example": [windows[40].0, windows[40].1]}));
    files.par_iter().for_each(|tf| {
        let path = write_tmp(&dir, &tf.data, ".log");
        let gzpath = write_tmp(&dir, &gzip(&tf.data), ".log.gz");
        rep.distinct(hash64(&tf.data));
        for (kind, p, ft) in [("plain", &path, filetype_text()), ("gz", &gzpath, filetype_text_gz())] {
            for &bsz in &bszs {
                if kind == "gz" && bsz != 64 && bsz != 65536 {
                    continue;
                }
                for &(a, b) in &windows {
                    rep.eval(1);
                    let expect: Vec<RefMsg> = tf.msgs.iter().filter(|m| a.map_or(true, |x| m.ms >= x) && b.map_or(true, |y| m.ms <= y)).cloned().collect();
                    let r = scan_processor(p, ft, bsz, a.and_then(dt_of_ms), b.and_then(dt_of_ms), utc(), false);
                    let sym = match &r {
                        Err(e) => Some(format!("error: {}", e)),
                        Ok((Verdict::Rejected(n), _, _)) => Some(format!("rejected: {}", n)),
                        Ok((Verdict::Ok, got, _)) => compare(tf, &expect, got, false),
                    };
                    if let Some(sym) = sym {
                        let n_at_a = a.map_or(0, |x| tf.msgs.iter().filter(|m| m.ms == x).count());
                        let n_at_b = b.map_or(0, |y| tf.msgs.iter().filter(|m| m.ms == y).count());
                        rep.violation(
                            json!({"kind": kind, "symptom": symptom_class(&sym), "messages_exactly_at_after_bound": std::cmp::min(n_at_a, 2), "messages_exactly_at_before_bound": std::cmp::min(n_at_b, 2),
                                   "has_after": a.is_some(), "has_before": b.is_some()}),
                            format!("{} file, blocksz {}, window [{:?},{:?}]: {} (expected {} of {} messages)", kind, bsz, a, b, sym, expect.len(), tf.msgs.len()),
                            json!({"engine":"E-SEQ","sub":"c03","kind":kind,"file_b64": b64(&tf.data),"blocksz":bsz,"after_ms":a,"before_ms":b,
                                   "expect": tf.msgs.iter().map(|m| json!([m.begin, m.end, m.ms])).collect::<Vec<_>>()}),
                        );
                    }
                }
            }
        }
        let _ = std::fs::remove_file(&path);
        let _ = std::fs::remove_file(&gzpath);
    });
    cleanup();
    rep.finish(
        true,
        "text logs of 1..N messages with every non-decreasing timestamp sequence over a 4-point domain (ties, 1 ms neighbour) x 4 message-length patterns (lines at/over block boundaries) x every window with bounds in {none, each instant, +-1 ms, +-1 s}, A<=B x block sizes x {plain: binary search, gz: linear search}, through the real SyslogProcessor stage sequence; oracle A<=t<=B over the reference message list. distinct_nontrivial = distinct files",
    );
}

pub fn replay(v: &serde_json::Value) -> bool {
    let r = &v["replay"];
    let data = crate::out::unb64(r["file_b64"].as_str().unwrap_or(""));
    let bsz = r["blocksz"].as_u64().unwrap_or(64);
    let dir = scratch();
    let gz = r["kind"].as_str() == Some("gz");
    let path = if gz { write_tmp(&dir, &gzip(&data), ".log.gz") } else { write_tmp(&dir, &data, ".log") };
    let msgs: Vec<RefMsg> = r["expect"].as_array().map(|a| a.iter().map(|m| RefMsg { begin: m[0].as_u64().unwrap() as usize, end: m[1].as_u64().unwrap() as usize, ms: m[2].as_i64().unwrap() }).collect()).unwrap_or_default();
    let a = r["after_ms"].as_i64();
    let b = r["before_ms"].as_i64();
    let expect: Vec<RefMsg> = msgs.iter().filter(|m| a.map_or(true, |x| m.ms >= x) && b.map_or(true, |y| m.ms <= y)).cloned().collect();
    let tf = TextFile { data, msgs };
    let got = scan_processor(&path, if gz { filetype_text_gz() } else { filetype_text() }, bsz, a.and_then(dt_of_ms), b.and_then(dt_of_ms), utc(), false);
    println!("window [{:?},{:?}] blocksz {}: got {:?}", a, b, bsz, got.as_ref().map(|(v, g, _)| (v.clone(), g.iter().map(|x| (x.begin, x.ms)).collect::<Vec<_>>())));
    println!("expected {:?}", expect.iter().map(|m| (m.begin, m.ms)).collect::<Vec<_>>());
    let ok = matches!(&got, Ok((Verdict::Ok, g, _)) if compare(&tf, &expect, g, false).is_none());
    cleanup();
    ok
}
