//! C02 / C12 — every message of a text log exactly once, byte for byte; block size never changes output.
use crate::out::{b64, hash64, Report};
use crate::text::*;
use rayon::prelude::*;
use serde_json::json;
use std::sync::atomic::{AtomicUsize, Ordering};

static FILE_SEQ: AtomicUsize = AtomicUsize::new(0);

pub fn scratch() -> String {
    let base = if std::path::Path::new("/dev/shm").is_dir() { "/dev/shm".to_string() } else { std::env::temp_dir().display().to_string() };
    let d = format!("{}/s4verif-seqx-{}", base, std::process::id());
    std::fs::create_dir_all(&d).unwrap();
    d
}

pub fn cleanup() {
    let base = if std::path::Path::new("/dev/shm").is_dir() { "/dev/shm".to_string() } else { std::env::temp_dir().display().to_string() };
    let _ = std::fs::remove_dir_all(format!("{}/s4verif-seqx-{}", base, std::process::id()));
}

pub fn write_tmp(dir: &str, data: &[u8], suffix: &str) -> String {
    let n = FILE_SEQ.fetch_add(1, Ordering::Relaxed);
    let p = format!("{}/f{}{}", dir, n, suffix);
    std::fs::write(&p, data).unwrap();
    p
}

fn bodies_small() -> Vec<Vec<u8>> {
    vec![b"".to_vec(), b" a".to_vec(), b" \xff\xc3".to_vec(), b" \x00".to_vec(), b" a b c d e f g h i j".to_vec(), b"\r".to_vec()]
}
fn conts_small() -> Vec<Vec<Vec<u8>>> {
    vec![vec![], vec![b"".to_vec()], vec![b"x".to_vec()], vec![b" y y".to_vec(), b"".to_vec()]]
}

fn fill(n: usize, k: usize) -> Vec<u8> {
    // no digit, so it can never look like a timestamp
    const ALPHA: &[u8] = b"a \rq\x00z\xc3k\xffw";
    (0..n).map(|i| ALPHA[(i * 7 + k) % ALPHA.len()]).collect()
}

/// all files of 1..=maxm messages over the small shape alphabet
fn small_files(maxm: usize) -> Vec<TextFile> {
    let bodies = bodies_small();
    let conts = conts_small();
    let mut shapes: Vec<(Vec<u8>, Vec<Vec<u8>>)> = vec![];
    for b in &bodies {
        for c in &conts {
            shapes.push((b.clone(), c.clone()));
        }
    }
    let ns = shapes.len();
    let mut files = vec![];
    for m in 1..=maxm {
        let total = ns.pow(m as u32);
        for mut i in 0..total {
            let mut specs = vec![];
            for j in 0..m {
                let (b, c) = &shapes[i % ns];
                i /= ns;
                specs.push(MsgSpec { ms: (EPOCH_2000 + j as i64) * 1000 + 7 * j as i64, body: b.clone(), cont: c.clone() });
            }
            for fnl in [true, false] {
                files.push(build(&[], &specs, b"\n", fnl));
            }
        }
    }
    files
}

fn features_reader(tf: &TextFile, bsz: u64, sym: &str) -> serde_json::Value {
    json!({"level":"reader","symptom": symptom_class(sym), "blocksz_lt_25": bsz < 25, "first_line_gt_blocksz": tf.first_line_len() as u64 > bsz})
}

fn replay_json(prop: &str, level: &str, tf: &TextFile, bsz: u64, suffix: &str) -> serde_json::Value {
    json!({"engine":"E-SEQ","sub":prop,"level":level,"file_b64": b64(&tf.data), "blocksz": bsz, "suffix": suffix,
           "expect": tf.msgs.iter().map(|m| json!([m.begin, m.end, m.ms])).collect::<Vec<_>>()})
}

/// Part R: reader-level, every block size 1..=len+1.
fn part_reader(rep: &Report, prop: &str, files: &[TextFile], bszs_all: bool, dir: &str) {
    files.par_iter().for_each(|tf| {
        let path = write_tmp(dir, &tf.data, ".log");
        let len = tf.data.len() as u64;
        let bszs: Vec<u64> = if bszs_all { (1..=len + 1).collect() } else { vec![1, 2, 3, 7, 24, 25, 26, 27, len.saturating_sub(1).max(1), len, len + 1] };
        let mut base: Option<Vec<Got>> = None;
        if prop == "c12" {
            base = scan_reader(&path, filetype_text(), 65536).ok();
        }
        for &bsz in &bszs {
            rep.eval(1);
            let r = scan_reader(&path, filetype_text(), bsz);
            let sym = match &r {
                Err(e) => Some(format!("error: {}", e)),
                Ok(got) => {
                    if prop == "c12" {
                        match &base {
                            Some(b) if b == got => None,
                            Some(b) => Some(format!("differs: {} messages at blocksz {} vs {} at 65536 (or ranges/bytes differ)", got.len(), bsz, b.len())),
                            None => Some("error: baseline run failed".to_string()),
                        }
                    } else {
                        compare(tf, &tf.msgs, got, true)
                    }
                }
            };
            if let Some(sym) = sym {
                rep.violation(features_reader(tf, bsz, &sym), format!("reader-level scan, blocksz {}: {}", bsz, sym), replay_json(prop, "reader", tf, bsz, ".log"));
            }
        }
        rep.distinct(hash64(&tf.data));
        let _ = std::fs::remove_file(&path);
    });
}

/// files whose line/message shapes are scaled to the block size
fn scaled_files(bsz: usize, maxm: usize, quick: bool) -> Vec<TextFile> {
    // the head line is 25 bytes of timestamp + body + '\n'
    let mut body_lens: Vec<usize> = vec![0, 1, bsz - 27, bsz - 26, bsz - 25, bsz + 1, 2 * bsz + 3];
    // (vec![0, n]: an empty line followed by a continuation line that crosses a block boundary)
    let mut cont_sets: Vec<Vec<usize>> = vec![vec![], vec![0], vec![bsz - 1], vec![bsz], vec![1, bsz + 1], vec![0, bsz + 1], vec![0, 5]];
    if quick {
        body_lens = vec![0, bsz - 27, bsz - 26, bsz - 25, 2 * bsz + 3];
        cont_sets = vec![vec![], vec![0], vec![bsz - 1], vec![1, bsz + 1], vec![0, bsz + 1]];
    }
    let mut shapes: Vec<(usize, Vec<usize>)> = vec![];
    for b in &body_lens {
        for c in &cont_sets {
            shapes.push((*b, c.clone()));
        }
    }
    let ns = shapes.len();
    let mut files = vec![];
    for m in 1..=maxm {
        let total = ns.pow(m as u32);
        for mut i in 0..total {
            let mut specs = vec![];
            for j in 0..m {
                let (b, c) = &shapes[i % ns];
                i /= ns;
                let mut body = vec![];
                if *b > 0 {
                    body.push(b' ');
                    body.extend(fill(*b - 1, j));
                }
                specs.push(MsgSpec {
                    ms: (EPOCH_2000 + j as i64) * 1000,
                    body,
                    cont: c.iter().enumerate().map(|(k, n)| fill(*n, j + k + 3)).collect(),
                });
            }
            files.push(build(&[], &specs, b"\n", true));
            if m <= 2 {
                files.push(build(&[], &specs, b"\n", false));
                files.push(build(&[], &specs, b"\r\n", true));
                files.push(build(&[b"preamble without stamp".to_vec()], &specs, b"\n", true));
                files.push(build(&[vec![], fill(bsz - 10, 1)], &specs, b"\n", true));
            }
        }
    }
    files
}

fn features_proc(tf: &TextFile, bsz: u64, verdict: &Verdict, sym: &str) -> serde_json::Value {
    features_proc_b(tf, bsz, verdict, sym, None)
}

fn features_proc_b(tf: &TextFile, bsz: u64, verdict: &Verdict, sym: &str, base: Option<&Verdict>) -> serde_json::Value {
    let blk0 = std::cmp::min(bsz as usize, tf.data.len());
    // messages that begin inside block zero and whose head line ends inside block zero
    let heads_in_blk0 = tf
        .msgs
        .iter()
        .filter(|m| {
            let e = tf.data[m.begin..].iter().position(|&x| x == b'\n').map(|p| m.begin + p + 1).unwrap_or(tf.data.len());
            e <= blk0
        })
        .count();
    let nul_n = tf.data.iter().take_while(|&&b| b == 0).count();
    let nul_prefix = if nul_n == 0 { "0" } else if nul_n < 64 { "1-63" } else if nul_n < 128 { "64-127" } else { "ge128" };
    json!({
        "level":"processor",
        "symptom": symptom_class(sym),
        "verdict": match verdict { Verdict::Ok => "Ok".to_string(), Verdict::Rejected(n) => format!("Rejected:{}", n) },
        "first_line_gt_blocksz": tf.first_line_len() as u64 > bsz,
        "first_head_line_inside_block0": tf.first_head_line_end() <= blk0,
        "block0_ge_8096": blk0 >= 8096,
        "complete_head_lines_in_block0": std::cmp::min(heads_in_blk0, 3),
        "nul_prefix": nul_prefix,
        "base_verdict": match base { None => "n/a".to_string(), Some(Verdict::Ok) => "Ok".to_string(), Some(Verdict::Rejected(n)) => format!("Rejected:{}", n) },
        "first_head_line_inside_default_block0": tf.first_head_line_end() <= std::cmp::min(65536, tf.data.len()),
    })
}

fn proc_bszs(len: u64, bsz0: u64) -> Vec<u64> {
    let mut v: Vec<u64> = vec![64, 65, 66, 100, 127, 128, 129, 256, bsz0, bsz0 + 1, bsz0.saturating_sub(1).max(64), 65536];
    for b in [len.saturating_sub(1), len, len + 1] {
        if b >= 64 {
            v.push(b);
        }
    }
    v.sort();
    v.dedup();
    v
}

/// Part P: processor-level (complete stage sequence + streaming loop with drops), block sizes >= 64.
fn part_processor(rep: &Report, prop: &str, files: &[(u64, TextFile)], dir: &str) {
    files.par_iter().for_each(|(bsz0, tf)| {
        let path = write_tmp(dir, &tf.data, ".log");
        let len = tf.data.len() as u64;
        let base = if prop == "c12" { scan_processor(&path, filetype_text(), 65536, None, None, utc(), true).ok() } else { None };
        for bsz in proc_bszs(len, *bsz0) {
            rep.eval(1);
            let r = scan_processor(&path, filetype_text(), bsz, None, None, utc(), true);
            let (verdict, sym) = match &r {
                Err(e) => (Verdict::Ok, Some(format!("error: {}", e))),
                Ok((v, got, _)) => {
                    if prop == "c12" {
                        match &base {
                            Some((bv, bgot, _)) if bv == v && bgot == got => (v.clone(), None),
                            Some((bv, bgot, _)) => (
                                v.clone(),
                                Some(format!("differs: blocksz {} gives {:?}/{} messages, blocksz 65536 gives {:?}/{} messages", bsz, v, got.len(), bv, bgot.len())),
                            ),
                            None => (v.clone(), Some("error: baseline run failed".into())),
                        }
                    } else {
                        match v {
                            Verdict::Rejected(n) => (v.clone(), Some(format!("rejected: file rejected ({}) although it holds {} timestamped messages", n, tf.msgs.len()))),
                            Verdict::Ok => (v.clone(), compare(tf, &tf.msgs, got, true)),
                        }
                    }
                }
            };
            if let Some(sym) = sym {
                let bv = base.as_ref().map(|(v, _, _)| v);
                rep.violation(features_proc_b(tf, bsz, &verdict, &sym, bv), format!("processor-level run, blocksz {}: {}", bsz, sym), replay_json(prop, "processor", tf, bsz, ".log"));
            }
        }
        rep.distinct(hash64(&tf.data));
        let _ = std::fs::remove_file(&path);
    });
}

/// Part Q: call sequences. For (file, blocksz) every sequence of `find_sysline(fo)` calls of the given depth
/// (fo over every offset of the file); each answer must equal the answer a fresh reader gives to the same
/// call. States = distinct cache contents reached (identified by the call prefix); transitions = calls.
fn part_sequences(rep: &Report, files: &[TextFile], bszs: &[u64], depth: usize, dir: &str) {
    use s4lib::readers::syslinereader::{ResultS3SyslineFind, SyslineReader};
    type Ans = Option<(u64, usize, usize, i64, Vec<u8>)>;
    fn ans(r: ResultS3SyslineFind) -> Result<Ans, String> {
        match r {
            ResultS3SyslineFind::Found((fo, sp)) => Ok(Some((fo, sp.fileoffset_begin() as usize, sp.fileoffset_end() as usize + 1, sp.dt().timestamp_millis(), sp.verif_bytes()))),
            ResultS3SyslineFind::Done => Ok(None),
            ResultS3SyslineFind::Err(e) => Err(e.to_string()),
        }
    }
    files.par_iter().for_each(|tf| {
        let path = write_tmp(dir, &tf.data, ".log");
        let len = tf.data.len() as u64;
        for &bsz in bszs {
            // fresh answers
            let fresh: Vec<Result<Ans, String>> = (0..=len)
                .map(|fo| {
                    let mut r = SyslineReader::new(path.clone(), filetype_text(), bsz, utc()).unwrap();
                    ans(r.find_sysline(fo))
                })
                .collect();
            // the fresh answers themselves must be sane w.r.t. the reference: a Found message must be a reference message
            for (fo, a) in fresh.iter().enumerate() {
                rep.eval(1);
                if let Ok(Some((_next, b, e, ms, bytes))) = a {
                    let ok = tf.msgs.iter().any(|m| m.begin == *b && m.end == *e && m.ms == *ms) && bytes[..] == tf.data[*b..*e];
                    if !ok {
                        rep.violation(
                            json!({"level":"sequence","symptom":"fresh-answer-not-a-message"}),
                            format!("find_sysline({}) on a fresh reader (blocksz {}) returned [{},{}) which is not a message of the file", fo, bsz, b, e),
                            json!({"engine":"E-SEQ","sub":"c02","level":"sequence","file_b64": b64(&tf.data),"blocksz":bsz,"calls":[fo]}),
                        );
                    }
                }
            }
            let mut states: u64 = 0;
            let mut transitions: u64 = 0;
            // depth-d sequences
            let mut seq: Vec<u64> = vec![0; depth];
            loop {
                let mut r = SyslineReader::new(path.clone(), filetype_text(), bsz, utc()).unwrap();
                for (i, &fo) in seq.iter().enumerate() {
                    let a = ans(r.find_sysline(fo));
                    transitions += 1;
                    if a != fresh[fo as usize] {
                        rep.violation(
                            json!({"level":"sequence","symptom":"answer-depends-on-history","call_index": i}),
                            format!("find_sysline({}) after calls {:?} (blocksz {}) answers differently from a fresh reader", fo, &seq[..i], bsz),
                            json!({"engine":"E-SEQ","sub":"c02","level":"sequence","file_b64": b64(&tf.data),"blocksz":bsz,"calls":seq.clone()}),
                        );
                        break;
                    }
                }
                states += 1;
                rep.eval(1);
                // next sequence
                let mut k = depth;
                loop {
                    if k == 0 {
                        break;
                    }
                    k -= 1;
                    if seq[k] < len {
                        seq[k] += 1;
                        for s in seq.iter_mut().skip(k + 1) {
                            *s = 0;
                        }
                        break;
                    } else if k == 0 {
                        k = usize::MAX;
                        break;
                    }
                }
                if k == usize::MAX {
                    break;
                }
            }
            rep.states.fetch_add(states, Ordering::Relaxed);
            rep.transitions.fetch_add(transitions, Ordering::Relaxed);
        }
        let _ = std::fs::remove_file(&path);
    });
}

pub fn run(prop: &str, tier: &str) {
    let rep = Report::new();
    let dir = scratch();
    let quick = tier == "quick";
    // part R
    let files_r2 = small_files(2);
    part_reader(&rep, prop, &files_r2, true, &dir);
    let files_r3: Vec<TextFile> = small_files(3).into_iter().filter(|f| f.msgs.len() == 3).collect();
    part_reader(&rep, prop, &files_r3, !quick, &dir);
    rep.extra("reader_level_files", json!(files_r2.len() + files_r3.len()));
    // CRLF / leading junk at reader level
    let mut var = vec![];
    for f in small_files(2) {
        if f.msgs.len() == 2 && *f.data.last().unwrap() == b'\n' {
            // rebuild as CRLF and with preamble is done from specs in scaled_files; here: prefix junk lines
            let mut d = b"\njunk line\n".to_vec();
            let off = d.len();
            d.extend_from_slice(&f.data);
            let msgs = f.msgs.iter().map(|m| RefMsg { begin: m.begin + off, end: m.end + off, ms: m.ms }).collect();
            var.push(TextFile { data: d, msgs });
        }
    }
    part_reader(&rep, prop, &var, !quick, &dir);
    // part P
    let mut pf: Vec<(u64, TextFile)> = vec![];
    let bsz_list: Vec<usize> = if quick { vec![64, 100] } else { vec![64, 65, 100, 128] };
    for bsz in bsz_list {
        for f in scaled_files(bsz, if quick { 2 } else { 3 }, quick) {
            pf.push((bsz as u64, f));
        }
    }
    // big-block cases: thresholds of block-zero analysis depend on the length of block zero
    for (nlines, linelen) in [(2usize, 5000usize), (3, 3000), (40, 300), (1, 9000)] {
        let specs: Vec<MsgSpec> = (0..nlines)
            .map(|j| MsgSpec { ms: (EPOCH_2000 + j as i64) * 1000, body: { let mut b = vec![b' ']; b.extend(fill(linelen - 27, j)); b }, cont: vec![] })
            .collect();
        pf.push((8192, build(&[], &specs, b"\n", true)));
    }
    // preambles of N filler bytes (NUL and others) before the first timestamped line; block sizes around N are added by proc_bszs via bsz0
    {
        let specs: Vec<MsgSpec> = (0..3).map(|j| MsgSpec { ms: (EPOCH_2000 + j as i64) * 1000, body: b" m".to_vec(), cont: if j == 1 { vec![b"c".to_vec()] } else { vec![] } }).collect();
        let ns: Vec<usize> = if quick { vec![1, 63, 64, 100, 127, 128, 129, 200, 1000] } else { vec![1, 2, 31, 63, 64, 65, 100, 126, 127, 128, 129, 130, 191, 192, 200, 255, 256, 257, 1000, 5000, 70000] };
        for n in ns {
            for filler in [0u8, b' ', 0xff, b'x'] {
                let f = build(&[vec![filler; n]], &specs, b"\n", true);
                for b0 in [n as u64, n as u64 + 40] {
                    pf.push((std::cmp::max(b0, 64), f.clone()));
                }
            }
        }
    }
    rep.extra("processor_level_files", json!(pf.len()));
    part_processor(&rep, prop, &pf, &dir);
    rep.sample(json!({"level":"processor","blocksz0": pf[7].0, "file": String::from_utf8_lossy(&pf[7].1.data), "messages": pf[7].1.msgs.len()}));
    rep.sample(json!({"level":"reader","file": String::from_utf8_lossy(&files_r2[100].data), "block_sizes":"1..=len+1"}));
    // part Q
    if prop == "c02" {
        let qfiles: Vec<TextFile> = small_files(2).into_iter().filter(|f| f.msgs.len() == 2 && f.data.len() < 80).collect();
        let qf: Vec<TextFile> = if quick { qfiles.into_iter().step_by(16).collect() } else { qfiles.into_iter().step_by(2).collect() };
        rep.extra("sequence_files", json!(qf.len()));
        part_sequences(&rep, &qf, if quick { &[3, 16] } else { &[1, 3, 16, 31] }, 2, &dir);
        if !quick {
            let qf3: Vec<TextFile> = small_files(2).into_iter().filter(|f| f.msgs.len() == 2 && f.data.len() < 64).step_by(24).collect();
            part_sequences(&rep, &qf3, &[3, 16], 3, &dir);
        }
    }
    cleanup();
    rep.finish(
        true,
        "part R: every file of <=3 messages over a 6-body x 4-continuation shape alphabet (bytes incl. CR, NUL, truncated UTF-8, 0xFF), with/without final newline, at every block size 1..len+1 through the real SyslineReader; part P: files scaled to the block size (line ends at/before/after block boundaries, lines of 1..3 blocks, CRLF, preambles) through the real SyslogProcessor stage sequence and streaming loop with drops at block sizes {64..129, 256, len-1,len,len+1, 65536}; part Q: all call sequences find_sysline(fo) of depth 2/3 over every offset, against a fresh reader. distinct_nontrivial = distinct file contents",
    );
}

/// Write a corpus (files + expectations) for the E-CLI leg: the real binary must print exactly
/// `file[first_head..]` (plus a supplied final newline) for these files.
pub fn corpus(dir: &str, tier: &str) {
    std::fs::create_dir_all(dir).unwrap();
    let mut files: Vec<(u64, TextFile)> = vec![];
    for f in scaled_files(64, 2, true) {
        files.push((64, f));
    }
    if tier != "quick" {
        for f in scaled_files(100, 2, false) {
            files.push((100, f));
        }
    }
    for (i, f) in small_files(2).into_iter().enumerate() {
        if i % 7 == 0 {
            files.push((64, f));
        }
    }
    // lines around the printer's internal write-buffer capacity (2056 bytes): short head + long
    // continuation, long head, long line between short ones, several long lines in a row
    let lens: &[usize] = &[2000, 2055, 2056, 2057, 2100, 4112, 4113, 6200];
    for (k, &l) in lens.iter().enumerate() {
        let mk = |body: usize, cont: Vec<usize>, j: usize| MsgSpec {
            ms: (EPOCH_2000 + j as i64) * 1000,
            body: { let mut b = vec![b' ']; b.extend(fill(body, j + k)); b },
            cont: cont.iter().enumerate().map(|(q, n)| fill(*n, q + j + k)).collect(),
        };
        let shapes: Vec<Vec<MsgSpec>> = vec![
            vec![mk(3, vec![l], 0)],
            vec![mk(l, vec![], 0)],
            vec![mk(3, vec![5, l, 7], 0), mk(4, vec![], 1)],
            vec![mk(3, vec![l, l], 0), mk(l, vec![l], 1)],
            vec![mk(3, vec![], 0), mk(3, vec![l], 1), mk(3, vec![], 2)],
        ];
        for sh in shapes {
            files.push((1024, build(&[], &sh, b"\n", true)));
            files.push((4096, build(&[], &sh, b"\n", false)));
        }
    }
    let mut idx = vec![];
    for (i, (bsz0, f)) in files.iter().enumerate() {
        let name = format!("c{:05}.log", i);
        std::fs::write(format!("{}/{}", dir, name), &f.data).unwrap();
        idx.push(json!({"name": name, "bsz0": bsz0, "first_head": f.first_head(), "len": f.data.len(),
                        "first_head_line_end": f.first_head_line_end(), "n": f.msgs.len(),
                        "msgs": f.msgs.iter().map(|m| json!([m.begin, m.end, m.ms])).collect::<Vec<_>>()}));
    }
    std::fs::write(format!("{}/index.json", dir), serde_json::to_string(&idx).unwrap()).unwrap();
    println!("{}", json!({"kind":"corpus","files": files.len()}));
}

pub fn replay(prop: &str, v: &serde_json::Value) -> bool {
    let r = &v["replay"];
    let data = crate::out::unb64(r["file_b64"].as_str().unwrap_or(""));
    let bsz = r["blocksz"].as_u64().unwrap_or(64);
    let dir = scratch();
    let path = write_tmp(&dir, &data, r["suffix"].as_str().unwrap_or(".log"));
    let msgs: Vec<RefMsg> = r["expect"]
        .as_array()
        .map(|a| a.iter().map(|m| RefMsg { begin: m[0].as_u64().unwrap() as usize, end: m[1].as_u64().unwrap() as usize, ms: m[2].as_i64().unwrap() }).collect())
        .unwrap_or_default();
    let tf = TextFile { data, msgs };
    let level = r["level"].as_str().unwrap_or("processor");
    let ok = match level {
        "reader" => {
            let got = scan_reader(&path, filetype_text(), bsz);
            println!("reader-level blocksz {}: {:?}", bsz, got.as_ref().map(|g| g.iter().map(|x| (x.begin, x.end, x.ms)).collect::<Vec<_>>()));
            if prop == "c12" {
                let b = scan_reader(&path, filetype_text(), 65536);
                matches!((&got, &b), (Ok(a), Ok(b)) if a == b)
            } else {
                matches!(&got, Ok(g) if compare(&tf, &tf.msgs, g, true).is_none())
            }
        }
        "sequence" => {
            use s4lib::readers::syslinereader::SyslineReader;
            let calls: Vec<u64> = r["calls"].as_array().map(|a| a.iter().map(|x| x.as_u64().unwrap()).collect()).unwrap_or_default();
            let mut rd = SyslineReader::new(path.clone(), filetype_text(), bsz, utc()).unwrap();
            let mut ok = true;
            for fo in calls {
                let a = format!("{:?}", rd.find_sysline(fo).ok().map(|(n, s)| (n, s.fileoffset_begin(), s.fileoffset_end())));
                let mut fr = SyslineReader::new(path.clone(), filetype_text(), bsz, utc()).unwrap();
                let b = format!("{:?}", fr.find_sysline(fo).ok().map(|(n, s)| (n, s.fileoffset_begin(), s.fileoffset_end())));
                println!("find_sysline({}) -> {} (fresh reader: {})", fo, a, b);
                ok &= a == b;
            }
            ok
        }
        _ => {
            let got = scan_processor(&path, filetype_text(), bsz, None, None, utc(), true);
            println!("processor-level blocksz {}: {:?}", bsz, got.as_ref().map(|(v, g, _)| (v.clone(), g.iter().map(|x| (x.begin, x.end, x.ms)).collect::<Vec<_>>())));
            if prop == "c12" {
                let b = scan_processor(&path, filetype_text(), 65536, None, None, utc(), true);
                matches!((&got, &b), (Ok((v1, g1, _)), Ok((v2, g2, _))) if v1 == v2 && g1 == g2)
            } else {
                matches!(&got, Ok((Verdict::Ok, g, _)) if compare(&tf, &tf.msgs, g, true).is_none())
            }
        }
    };
    cleanup();
    ok
}
