//! seqx — bounded-exhaustive in-process enumerators against s4lib (engine E-SEQ).
mod c02;
mod c03;
mod c04;
mod c16;
mod c17;
mod out;
mod text;

fn main() {
    let args: Vec<String> = std::env::args().collect();
    let sub = args.get(1).map(|s| s.as_str()).unwrap_or("");
    let tier = args
        .iter()
        .position(|a| a == "--tier")
        .and_then(|i| args.get(i + 1))
        .map(|s| s.as_str())
        .unwrap_or("quick")
        .to_string();
    let replay = args
        .iter()
        .position(|a| a == "--replay")
        .and_then(|i| args.get(i + 1))
        .cloned();
    match sub {
        "c16" => {
            if let Some(r) = replay {
                let v: serde_json::Value = serde_json::from_str(&std::fs::read_to_string(&r).unwrap()).unwrap();
                let name = v["replay"]["name"].as_str().unwrap_or("").to_string();
                std::process::exit(if c16::replay(&name) { 0 } else { 1 });
            }
            c16::run(&tier)
        }
        "c16-long" => c16::run_long(),
        "c04-dump" => c04::dump(),
        "c04-spans" => c04::spans(args.get(2).expect("json file")),
        "c17" => {
            if let Some(r) = replay {
                let v: serde_json::Value = serde_json::from_str(&std::fs::read_to_string(&r).unwrap()).unwrap();
                std::process::exit(if c17::replay(&v) { 0 } else { 1 });
            }
            c17::run(&tier)
        }
        "c03" => {
            if let Some(r) = replay {
                let v: serde_json::Value = serde_json::from_str(&std::fs::read_to_string(&r).unwrap()).unwrap();
                std::process::exit(if c03::replay(&v) { 0 } else { 1 });
            }
            c03::run(&tier)
        }
        "c02-corpus" => c02::corpus(args.get(2).expect("dir"), &tier),
        "c02" | "c12" => {
            if let Some(r) = replay {
                let v: serde_json::Value = serde_json::from_str(&std::fs::read_to_string(&r).unwrap()).unwrap();
                std::process::exit(if c02::replay(sub, &v) { 0 } else { 1 });
            }
            c02::run(sub, &tier)
        }
        _ => {
            eprintln!("usage: seqx <c16|...> [--tier quick|thorough] [--replay FILE]");
            std::process::exit(2);
        }
    }
}
