fn main() {
    println!("seqx placeholder");
}
