//! C17 — memory held for a streamed text log does not grow with its size (high-water marks).
use crate::c02::{cleanup, scratch, write_tmp};
use crate::c03::{filetype_text_gz, gzip};
use crate::out::{hash64, Report};
use crate::text::*;
use rayon::prelude::*;
use s4lib::common::{FileType, FileTypeArchive, FileTypeTextEncoding};
use serde_json::json;
use std::io::Write;

fn filetype_text_lz4() -> FileType {
    FileType::Text { archival_type: FileTypeArchive::Lz4, encoding_type: FileTypeTextEncoding::Utf8Ascii }
}

fn lz4(data: &[u8]) -> Vec<u8> {
    let mut e = lz4_flex::frame::FrameEncoder::new(Vec::new());
    e.write_all(data).unwrap();
    e.finish().unwrap()
}

/// Build a log of about `nblocks * bsz` bytes for a line-shape pattern. Returns (bytes, #blocks whose last byte is '\n').
fn build_shape(shape: &str, bsz: usize, nblocks: usize) -> (Vec<u8>, usize) {
    let target = bsz * nblocks;
    let mut data: Vec<u8> = Vec::with_capacity(target + 4 * bsz);
    let mut i: i64 = 0;
    let mut push_msg = |data: &mut Vec<u8>, line_len: usize, cont: &[usize]| {
        // a line of exactly `line_len` bytes including '\n' (minimum 27)
        let ll = std::cmp::max(line_len, 27);
        data.extend_from_slice(&ts0((EPOCH_2000 + i) * 1000));
        data.push(b' ');
        data.extend(std::iter::repeat(b'm').take(ll - 27));
        data.push(b'\n');
        for c in cont {
            data.extend(std::iter::repeat(b'c').take(std::cmp::max(*c, 1) - 1));
            data.push(b'\n');
        }
        i += 1;
    };
    let mut k = 0usize;
    while data.len() < target {
        match shape {
            "short" => push_msg(&mut data, 41, &[]),
            "sawtooth" => push_msg(&mut data, 27 + (k % 37), &[]),
            "multiblock" => {
                if k % 50 == 49 {
                    // one message whose single line spans ~3.5 blocks, not ending on a block end
                    push_msg(&mut data, 3 * bsz + bsz / 2 + 3, &[]);
                } else {
                    push_msg(&mut data, 43, &[]);
                }
            }
            "multiline" => {
                if k % 20 == 19 {
                    push_msg(&mut data, 45, &[bsz / 3 + 1, bsz / 2 + 5, bsz + 7]);
                } else {
                    push_msg(&mut data, 39, &[]);
                }
            }
            // every line exactly one block: every block ends with a newline
            "aligned" => push_msg(&mut data, bsz, &[]),
            // line length divides the block size
            "divides" => push_msg(&mut data, std::cmp::max(bsz / 8, 32), &[]),
            _ => unreachable!(),
        }
        k += 1;
    }
    let aligned = (0..data.len() / bsz).filter(|b| data[(b + 1) * bsz - 1] == b'\n').count();
    (data, aligned)
}

pub fn run(tier: &str) {
    let rep = Report::new();
    let dir = scratch();
    let quick = tier == "quick";
    let shapes = ["short", "sawtooth", "multiblock", "multiline", "aligned", "divides"];
    let sizes: Vec<usize> = if quick { vec![16, 64, 256, 1024] } else { vec![16, 32, 64, 128, 256, 512, 1024, 2048, 4096] };
    let bszs: Vec<usize> = if quick { vec![256, 1024] } else { vec![64, 256, 1024, 4096] };
    let conts = ["plain", "gz", "lz4"];
    let mut cases = vec![];
    for shape in shapes {
        for &bsz in &bszs {
            if (shape == "divides" || shape == "aligned") && bsz < 256 {
                continue;
            }
            for cont in conts {
                cases.push((shape, bsz, cont));
            }
        }
    }
    rep.extra("sizes_in_blocks", json!(sizes));
    cases.par_iter().for_each(|(shape, bsz, cont)| {
        let mut base: Option<Marks> = None;
        // the smallest file must hold several periods of the shape (a period is ~2.4 KB): at least 16 KiB
        // (the multiblock shape repeats every 50 messages, one of them 3.5 blocks long: its marks depend on where the long
        // line falls relative to the block grid, which needs some eight periods to show its worst case)
        let min_bytes = if *shape == "multiblock" { std::cmp::max(16384, 8 * (2200 + 4 * bsz)) } else { 16384 };
        let sizes: Vec<usize> = sizes.iter().cloned().filter(|n| n * bsz >= min_bytes).collect();
        if sizes.len() < 3 {
            return;
        }
        for &nb in &sizes {
            let (data, aligned) = build_shape(shape, *bsz, nb);
            let (path, ft) = match *cont {
                "plain" => (write_tmp(&dir, &data, ".log"), filetype_text()),
                "gz" => (write_tmp(&dir, &gzip(&data), ".log.gz"), filetype_text_gz()),
                _ => (write_tmp(&dir, &lz4(&data), ".log.lz4"), filetype_text_lz4()),
            };
            let windows: Vec<Option<i64>> = if *cont == "plain" { vec![None, Some((EPOCH_2000 + 3) * 1000)] } else { vec![None] };
            for w in windows {
                rep.eval(1);
                rep.distinct(hash64(&(shape, bsz, cont, nb, w.is_some())));
                let r = scan_processor(&path, ft, *bsz as u64, w.and_then(dt_of_ms), None, utc(), false);
                let marks = match r {
                    Ok((Verdict::Ok, _, m)) => m,
                    other => {
                        rep.violation(
                            json!({"symptom":"run-failed","shape":shape,"container":cont}),
                            format!("{} {} bsz {} {} blocks: {:?}", shape, cont, bsz, nb, other.map(|(v, g, _)| (v, g.len()))),
                            json!({"engine":"E-SEQ","sub":"c17","shape":shape,"blocksz":bsz,"container":cont,"blocks":nb}),
                        );
                        continue;
                    }
                };
                // baseline: the larger of the marks at the two smallest sizes (a shape needs a few periods to show its steady state)
                if w.is_none() && (nb == sizes[0] || nb == sizes[1]) {
                    base = Some(match &base {
                        None => marks.clone(),
                        Some(b) => Marks {
                            blocks_highest: std::cmp::max(b.blocks_highest, marks.blocks_highest),
                            lines_highest: std::cmp::max(b.lines_highest, marks.lines_highest),
                            syslines_highest: std::cmp::max(b.syslines_highest, marks.syslines_highest),
                        },
                    });
                    if nb == sizes[1] {
                        continue;
                    }
                }
                if w.is_some() {
                    // a window only adds the search: allow a logarithmic term
                    if let Some(b) = &base {
                        // the search itself touches about log2(size in blocks) blocks, whatever the smallest size of the series is
                        let lg = (nb as f64).log2().max(0.0).ceil() as usize;
                        // each probe of the search reads one message; the longest line of the shape spans `ll` blocks
                        let ll = data.split(|&c| c == b'\n').map(|l| l.len()).max().unwrap_or(0) / bsz + 2;
                        if marks.blocks_highest > b.blocks_highest + 4 + ll * lg + if *cont == "plain" { aligned } else { 0 } {
                            rep.violation(
                                json!({"symptom":"grows-windowed","mark":"blocks","shape":shape,"container":cont}),
                                format!("{} {} bsz {} {} blocks, windowed: blocks high {} (baseline {} at {} blocks)", shape, cont, bsz, nb, marks.blocks_highest, b.blocks_highest, sizes[0]),
                                json!({"engine":"E-SEQ","sub":"c17","shape":shape,"blocksz":bsz,"container":cont,"blocks":nb,"window":true}),
                            );
                        }
                    }
                    continue;
                }
                if let Some(b) = &base {
                    let checks = [("blocks", marks.blocks_highest, b.blocks_highest), ("lines", marks.lines_highest, b.lines_highest), ("syslines", marks.syslines_highest, b.syslines_highest)];
                    for (name, v, bv) in checks {
                        if v > bv + 2 {
                            // is the growth explained by blocks whose last byte is a line end (never released on plain files)?
                            let lines_per_block = if *bsz > 0 { std::cmp::max(1, data.len() / std::cmp::max(1, data.iter().filter(|&&c| c == b'\n').count()) ) } else { 1 };
                            let _ = lines_per_block;
                            let explained = *cont == "plain" && aligned > 0 && (name != "blocks" || v <= bv + 2 + aligned);
                            rep.violation(
                                json!({"symptom":"grows","mark":name,"shape":shape,"container":cont,"explained_by_blocks_ending_in_newline": explained}),
                                format!("{} {} bsz {} {} blocks: {} high {} (baseline {} at {} blocks; {} blocks end with a newline)", shape, cont, bsz, nb, name, v, bv, sizes[0], aligned),
                                json!({"engine":"E-SEQ","sub":"c17","shape":shape,"blocksz":bsz,"container":cont,"blocks":nb}),
                            );
                        }
                    }
                }
            }
            let _ = std::fs::remove_file(&path);
        }
    });
    rep.sample(json!({"shape":"multiblock","blocksz":1024,"container":"gz","sizes_in_blocks": sizes}));
    cleanup();
    rep.finish(
        true,
        "file sizes (in blocks) x 6 line-shape patterns (uniform short, sawtooth, one 3.5-block line every 50 messages, multi-line messages, every line = one block, line length dividing the block) x block sizes x {plain, gz, lz4} (+ a window on plain), through the real SyslogProcessor streaming loop with drops; oracle: blocks/lines/syslines high-water marks at each size <= marks at the two smallest sizes (max) + 2 (windowed: + 2*log2). distinct_nontrivial = distinct (shape, block size, container, size, window)",
    );
}

pub fn replay(v: &serde_json::Value) -> bool {
    let r = &v["replay"];
    let shape = r["shape"].as_str().unwrap_or("short").to_string();
    let bsz = r["blocksz"].as_u64().unwrap_or(1024) as usize;
    let nb = r["blocks"].as_u64().unwrap_or(64) as usize;
    let cont = r["container"].as_str().unwrap_or("plain");
    let dir = scratch();
    let sh: &str = match shape.as_str() { "short" => "short", "sawtooth" => "sawtooth", "multiblock" => "multiblock", "multiline" => "multiline", "aligned" => "aligned", _ => "divides" };
    for n in [16usize, nb] {
        let (data, aligned) = build_shape(sh, bsz, n);
        let (path, ft) = match cont {
            "plain" => (write_tmp(&dir, &data, ".log"), filetype_text()),
            "gz" => (write_tmp(&dir, &gzip(&data), ".log.gz"), filetype_text_gz()),
            _ => (write_tmp(&dir, &lz4(&data), ".log.lz4"), filetype_text_lz4()),
        };
        let r = scan_processor(&path, ft, bsz as u64, None, None, utc(), false);
        println!("{} {} bsz {} {} blocks ({} end with newline): {:?}", sh, cont, bsz, n, aligned, r.map(|(v, g, m)| (v, g.len(), m)));
    }
    cleanup();
    true
}
