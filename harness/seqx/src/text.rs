//! Text-log generators, the reference splitter, and the drivers of the real readers
//! (reader-level forward scan; processor-level transcription of the streaming loop).
use chrono::{FixedOffset, TimeZone};
use s4lib::common::{FileType, FileTypeArchive, FileTypeTextEncoding};
use s4lib::data::datetime::DateTimeLOpt;
use s4lib::readers::syslinereader::{ResultS3SyslineFind, SyslineReader};
use s4lib::readers::syslogprocessor::{FileProcessingResultBlockZero, SyslogProcessor};

pub const EPOCH_2000: i64 = 946684800;

#[derive(Clone, Debug, PartialEq, Eq, Hash)]
pub struct RefMsg {
    /// first byte of the message in the file
    pub begin: usize,
    /// one past the last byte
    pub end: usize,
    /// instant in epoch milliseconds
    pub ms: i64,
}

#[derive(Clone, Debug)]
pub struct TextFile {
    pub data: Vec<u8>,
    pub msgs: Vec<RefMsg>,
}

impl TextFile {
    pub fn first_head(&self) -> usize {
        self.msgs.first().map(|m| m.begin).unwrap_or(self.data.len())
    }
    /// length of the first line of the file (including its newline)
    pub fn first_line_len(&self) -> usize {
        self.data.iter().position(|&b| b == b'\n').map(|p| p + 1).unwrap_or(self.data.len())
    }
    /// one past the end of the first head line (including newline)
    pub fn first_head_line_end(&self) -> usize {
        let b = self.first_head();
        self.data[b..].iter().position(|&x| x == b'\n').map(|p| b + p + 1).unwrap_or(self.data.len())
    }
}

pub fn civil(epoch: i64) -> (i64, i64, i64, i64, i64, i64) {
    let days = epoch.div_euclid(86400);
    let rem = epoch.rem_euclid(86400);
    let (h, mi, s) = (rem / 3600, (rem % 3600) / 60, rem % 60);
    let z = days + 719468;
    let era = z.div_euclid(146097);
    let doe = z - era * 146097;
    let yoe = (doe - doe / 1460 + doe / 36524 - doe / 146096) / 365;
    let mut y = yoe + era * 400;
    let doy = doe - (365 * yoe + yoe / 4 - yoe / 100);
    let mp = (5 * doy + 2) / 153;
    let d = doy - (153 * mp + 2) / 5 + 1;
    let m = if mp < 10 { mp + 3 } else { mp - 9 };
    if m <= 2 {
        y += 1;
    }
    (y, m, d, h, mi, s)
}

/// `[YYYY/MM/DD hh:mm:ss.mmm]` (UTC; 25 bytes)
pub fn ts0(ms: i64) -> Vec<u8> {
    let (y, m, d, h, mi, s) = civil(ms.div_euclid(1000));
    format!("[{:04}/{:02}/{:02} {:02}:{:02}:{:02}.{:03}]", y, m, d, h, mi, s, ms.rem_euclid(1000)).into_bytes()
}

/// One message of a generated file.
#[derive(Clone, Debug)]
pub struct MsgSpec {
    pub ms: i64,
    /// bytes after the timestamp on the head line (without newline)
    pub body: Vec<u8>,
    /// continuation lines (without newline)
    pub cont: Vec<Vec<u8>>,
}

pub fn build(pre: &[Vec<u8>], msgs: &[MsgSpec], eol: &[u8], final_newline: bool) -> TextFile {
    let mut data = vec![];
    for l in pre {
        data.extend_from_slice(l);
        data.extend_from_slice(eol);
    }
    let mut out = vec![];
    for m in msgs {
        let begin = data.len();
        data.extend_from_slice(&ts0(m.ms));
        data.extend_from_slice(&m.body);
        data.extend_from_slice(eol);
        for c in &m.cont {
            data.extend_from_slice(c);
            data.extend_from_slice(eol);
        }
        out.push(RefMsg { begin, end: data.len(), ms: m.ms });
    }
    if !final_newline && !data.is_empty() && !msgs.is_empty() {
        // drop the final '\n' (keep a '\r' of CRLF: it is then an ordinary byte)
        data.pop();
        out.last_mut().unwrap().end = data.len();
    }
    TextFile { data, msgs: out }
}

pub fn filetype_text() -> FileType {
    FileType::Text { archival_type: FileTypeArchive::Normal, encoding_type: FileTypeTextEncoding::Utf8Ascii }
}

#[derive(Clone, Debug, PartialEq, Eq)]
pub struct Got {
    pub begin: usize,
    /// one past the end
    pub end: usize,
    pub ms: i64,
    pub ns_rem: u32,
    pub bytes: Vec<u8>,
}

fn got_of(s: &s4lib::data::sysline::Sysline) -> Got {
    let dt = s.dt();
    Got {
        begin: s.fileoffset_begin() as usize,
        end: s.fileoffset_end() as usize + 1,
        ms: dt.timestamp_millis(),
        ns_rem: dt.timestamp_subsec_nanos() % 1_000_000,
        bytes: s.verif_bytes(),
    }
}

pub fn utc() -> FixedOffset {
    FixedOffset::east_opt(0).unwrap()
}

pub fn dt_of_ms(ms: i64) -> DateTimeLOpt {
    Some(utc().timestamp_millis_opt(ms).unwrap())
}

/// Reader-level forward scan: `SyslineReader::find_sysline` from offset 0 following the returned
/// next offsets until Done. Any block size >= 1.
pub fn scan_reader(path: &str, filetype: FileType, blocksz: u64) -> Result<Vec<Got>, String> {
    let mut slr = SyslineReader::new(path.to_string(), filetype, blocksz, utc()).map_err(|e| format!("new: {}", e))?;
    let mut out = vec![];
    let mut fo = 0u64;
    let filesz = slr.filesz();
    let mut guard = 0usize;
    loop {
        guard += 1;
        if guard > 100000 {
            return Err("reader scan does not terminate".into());
        }
        match slr.find_sysline(fo) {
            ResultS3SyslineFind::Found((fo_next, sp)) => {
                out.push(got_of(&sp));
                if fo_next <= fo && fo_next < filesz {
                    return Err(format!("next offset {} does not advance past {}", fo_next, fo));
                }
                fo = fo_next;
                if fo >= filesz {
                    break;
                }
            }
            ResultS3SyslineFind::Done => break,
            ResultS3SyslineFind::Err(e) => return Err(format!("find_sysline({}): {}", fo, e)),
        }
    }
    Ok(out)
}

#[derive(Clone, Debug, PartialEq, Eq)]
pub enum Verdict {
    /// the file was processed; messages delivered
    Ok,
    /// rejected at some stage (name of the FileProcessingResult)
    Rejected(String),
}

fn fpr_name(r: &FileProcessingResultBlockZero) -> String {
    let s = format!("{:?}", r);
    s.split('(').next().unwrap_or("").to_string()
}

/// High-water marks of one processor run (C17).
#[derive(Clone, Debug, Default)]
pub struct Marks {
    pub blocks_highest: usize,
    pub lines_highest: usize,
    pub syslines_highest: usize,
}

/// Processor-level run: a transcription of the stage sequence and streaming loop of
/// `exec_syslogprocessor` in src/bin/s4.rs (stage0 .. stage4, `find_sysline_between_datetime_filters`,
/// `drop_data_try`). Message bytes are copied at the moment the real worker would send the message.
pub fn scan_processor(
    path: &str,
    filetype: FileType,
    blocksz: u64,
    after: DateTimeLOpt,
    before: DateTimeLOpt,
    tz: FixedOffset,
    want_bytes: bool,
) -> Result<(Verdict, Vec<Got>, Marks), String> {
    let mut sp = SyslogProcessor::new(path.to_string(), filetype, blocksz, tz, after, before).map_err(|e| format!("new: {}", e))?;
    let mut out: Vec<Got> = vec![];
    let push = |out: &mut Vec<Got>, s: &s4lib::data::sysline::Sysline| {
        if want_bytes {
            out.push(got_of(s));
        } else {
            let dt = s.dt();
            out.push(Got {
                begin: s.fileoffset_begin() as usize,
                end: s.fileoffset_end() as usize + 1,
                ms: dt.timestamp_millis(),
                ns_rem: dt.timestamp_subsec_nanos() % 1_000_000,
                bytes: vec![],
            });
        }
    };
    let marks = |sp: &SyslogProcessor| -> Marks {
        let s = sp.summary_complete();
        let mut m = Marks::default();
        if let s4lib::readers::summary::SummaryReaderData::Syslog((b, l, y, _)) = &s.readerdata {
            m.blocks_highest = b.blockreader_blocks_highest;
            m.lines_highest = l.linereader_lines_stored_highest;
            m.syslines_highest = y.syslinereader_syslines_stored_highest;
        }
        m
    };
    let r = sp.process_stage0_valid_file_check();
    if !r.is_ok() {
        return Ok((Verdict::Rejected(fpr_name(&r)), out, Marks::default()));
    }
    let r = sp.process_stage1_blockzero_analysis();
    if !matches!(r, FileProcessingResultBlockZero::FileOk) {
        return Ok((Verdict::Rejected(fpr_name(&r)), out, Marks::default()));
    }
    let r = sp.process_stage2_find_dt(&after);
    if !matches!(r, FileProcessingResultBlockZero::FileOk) {
        return Ok((Verdict::Rejected(fpr_name(&r)), out, Marks::default()));
    }
    let mut fo1: u64 = 0;
    let search_more: bool;
    match sp.find_sysline_between_datetime_filters(0) {
        ResultS3SyslineFind::Found((fo, syslinep)) => {
            fo1 = fo;
            let is_last = sp.is_sysline_last(&syslinep);
            push(&mut out, &syslinep);
            search_more = !is_last;
        }
        ResultS3SyslineFind::Done => search_more = false,
        ResultS3SyslineFind::Err(e) => return Err(format!("find_sysline_between_datetime_filters(0): {}", e)),
    }
    if !search_more {
        sp.process_stage4_summary();
        let m = marks(&sp);
        return Ok((Verdict::Ok, out, m));
    }
    sp.process_stage3_stream_syslines();
    let mut last: Option<s4lib::data::sysline::SyslineP> = None;
    let mut guard = 0usize;
    loop {
        guard += 1;
        if guard > 10_000_000 {
            return Err("streaming loop does not terminate".into());
        }
        match sp.find_sysline_between_datetime_filters(fo1) {
            ResultS3SyslineFind::Found((fo, syslinep)) => {
                let tmp = syslinep.clone();
                let is_last = sp.is_sysline_last(&syslinep);
                push(&mut out, &syslinep);
                fo1 = fo;
                if is_last {
                    break;
                }
                if let Some(l) = last.take() {
                    sp.drop_data_try(&l);
                }
                last = Some(tmp);
            }
            ResultS3SyslineFind::Done => break,
            ResultS3SyslineFind::Err(e) => return Err(format!("find_sysline_between_datetime_filters({}): {}", fo1, e)),
        }
    }
    sp.process_stage4_summary();
    let m = marks(&sp);
    Ok((Verdict::Ok, out, m))
}

/// Compare a delivered message list with the reference. Returns a short symptom name.
pub fn compare(tf: &TextFile, expect: &[RefMsg], got: &[Got], check_bytes: bool) -> Option<String> {
    if got.len() != expect.len() {
        return Some(format!("count: expected {} messages, got {}", expect.len(), got.len()));
    }
    for (i, (e, g)) in expect.iter().zip(got.iter()).enumerate() {
        if e.begin != g.begin || e.end != g.end {
            return Some(format!("range: message {} expected [{},{}) got [{},{})", i, e.begin, e.end, g.begin, g.end));
        }
        if e.ms != g.ms || g.ns_rem != 0 {
            return Some(format!("instant: message {} expected {} ms got {} ms (+{} ns)", i, e.ms, g.ms, g.ns_rem));
        }
        if check_bytes && g.bytes != tf.data[e.begin..e.end] {
            return Some(format!("bytes: message {} bytes differ from file[{}..{}]", i, e.begin, e.end));
        }
    }
    None
}

pub fn symptom_class(s: &str) -> &str {
    s.split(':').next().unwrap_or("?")
}
