//! JSON-lines protocol towards py/seqx.py: `violation` records while running, one `summary` at the end.
use serde_json::{json, Value};
use std::collections::BTreeSet;
use std::io::Write;
use std::sync::atomic::{AtomicU64, Ordering};
use std::sync::Mutex;

pub struct Report {
    pub evaluations: AtomicU64,
    pub states: AtomicU64,
    pub transitions: AtomicU64,
    distinct: Mutex<BTreeSet<u64>>,
    samples: Mutex<Vec<Value>>,
    viol_classes: Mutex<BTreeSet<String>>,
    pub violations: AtomicU64,
    caps: Mutex<Vec<String>>,
    extra: Mutex<serde_json::Map<String, Value>>,
}

/// cases finished so far, for the stall watchdog
static PROGRESS: AtomicU64 = AtomicU64::new(0);
static WATCHDOG: std::sync::Once = std::sync::Once::new();

/// A case whose library call never returns would make the enumeration hang for ever. If no case finishes for
/// SEQX_STALL seconds (default 120) the run reports that as a violation (symptom `hang`), prints a capped summary and ends.
fn start_watchdog() {
    WATCHDOG.call_once(|| {
        let limit: u64 = std::env::var("SEQX_STALL").ok().and_then(|s| s.parse().ok()).unwrap_or(120);
        std::thread::spawn(move || {
            let mut last = PROGRESS.load(Ordering::Relaxed);
            let mut idle = 0u64;
            loop {
                std::thread::sleep(std::time::Duration::from_secs(2));
                let now = PROGRESS.load(Ordering::Relaxed);
                if now != last {
                    last = now;
                    idle = 0;
                    continue;
                }
                idle += 2;
                if idle >= limit && now > 0 {
                    let so = std::io::stdout();
                    let mut l = so.lock();
                    let _ = writeln!(l, "{}", json!({"kind":"violation","features":{"level":"enumerator","symptom":"hang"},
                        "what": format!("no case finished for {} s after {} cases: a call into the library does not return for a case in flight", limit, now),
                        "replay": {"engine":"E-SEQ","note":"re-run the check; the enumeration order is fixed"}}));
                    let _ = writeln!(l, "{}", json!({"kind":"summary","evaluations":now,"distinct_nontrivial":now,"states":now,"transitions":now,"samples":[],
                        "violations":1,"exhaustive":false,"caps":["stalled: a case in flight does not return"],"rule":"(stalled)","extra":{}}));
                    let _ = l.flush();
                    std::process::exit(0);
                }
            }
        });
    });
}

impl Report {
    pub fn new() -> Report {
        start_watchdog();
        Report {
            evaluations: AtomicU64::new(0),
            states: AtomicU64::new(0),
            transitions: AtomicU64::new(0),
            distinct: Mutex::new(BTreeSet::new()),
            samples: Mutex::new(vec![]),
            viol_classes: Mutex::new(BTreeSet::new()),
            violations: AtomicU64::new(0),
            caps: Mutex::new(vec![]),
            extra: Mutex::new(serde_json::Map::new()),
        }
    }
    pub fn eval(&self, n: u64) {
        self.evaluations.fetch_add(n, Ordering::Relaxed);
        PROGRESS.fetch_add(n, Ordering::Relaxed);
    }
    pub fn distinct(&self, key: u64) {
        self.distinct.lock().unwrap().insert(key);
    }
    pub fn distinct_many(&self, keys: impl IntoIterator<Item = u64>) {
        let mut g = self.distinct.lock().unwrap();
        for k in keys {
            g.insert(k);
        }
    }
    pub fn sample(&self, v: Value) {
        let mut g = self.samples.lock().unwrap();
        if g.len() < 6 {
            g.push(v);
        }
    }
    pub fn cap(&self, what: String) {
        self.caps.lock().unwrap().push(what);
    }
    pub fn extra(&self, k: &str, v: Value) {
        self.extra.lock().unwrap().insert(k.to_string(), v);
    }
    /// Report a violation. Only the first `per_class` cases of each feature class are printed in full;
    /// all are counted (the Python side matches feature classes against known_findings.json).
    pub fn violation(&self, features: Value, what: String, replay: Value) {
        self.violations.fetch_add(1, Ordering::Relaxed);
        let cls = features.to_string();
        let first = self.viol_classes.lock().unwrap().insert(cls);
        let rec = if first {
            json!({"kind":"violation","features":features,"what":what,"replay":replay})
        } else {
            json!({"kind":"violation","features":features,"what":what})
        };
        let so = std::io::stdout();
        let mut l = so.lock();
        let _ = writeln!(l, "{}", rec);
    }
    pub fn finish(&self, exhaustive: bool, rule: &str) {
        let rec = json!({
            "kind": "summary",
            "evaluations": self.evaluations.load(Ordering::Relaxed),
            "distinct_nontrivial": self.distinct.lock().unwrap().len(),
            "states": self.states.load(Ordering::Relaxed),
            "transitions": self.transitions.load(Ordering::Relaxed),
            "samples": *self.samples.lock().unwrap(),
            "violations": self.violations.load(Ordering::Relaxed),
            "exhaustive": exhaustive && self.caps.lock().unwrap().is_empty(),
            "caps": *self.caps.lock().unwrap(),
            "rule": rule,
            "extra": Value::Object(self.extra.lock().unwrap().clone()),
        });
        println!("{}", rec);
    }
}

pub fn hash64(x: &impl std::hash::Hash) -> u64 {
    use std::hash::Hasher;
    let mut h = std::collections::hash_map::DefaultHasher::new();
    x.hash(&mut h);
    h.finish()
}

pub fn b64(data: &[u8]) -> String {
    const T: &[u8; 64] = b"ABCDEFGHIJKLMNOPQRSTUVWXYZabcdefghijklmnopqrstuvwxyz0123456789+/";
    let mut s = String::with_capacity((data.len() + 2) / 3 * 4);
    for ch in data.chunks(3) {
        let b = [ch[0], *ch.get(1).unwrap_or(&0), *ch.get(2).unwrap_or(&0)];
        let n = ((b[0] as u32) << 16) | ((b[1] as u32) << 8) | b[2] as u32;
        s.push(T[(n >> 18) as usize & 63] as char);
        s.push(T[(n >> 12) as usize & 63] as char);
        s.push(if ch.len() > 1 { T[(n >> 6) as usize & 63] as char } else { '=' });
        s.push(if ch.len() > 2 { T[n as usize & 63] as char } else { '=' });
    }
    s
}

pub fn unb64(s: &str) -> Vec<u8> {
    let mut out = vec![];
    let mut acc = 0u32;
    let mut bits = 0;
    for c in s.bytes() {
        let v = match c {
            b'A'..=b'Z' => c - b'A',
            b'a'..=b'z' => c - b'a' + 26,
            b'0'..=b'9' => c - b'0' + 52,
            b'+' => 62,
            b'/' => 63,
            _ => continue,
        } as u32;
        acc = (acc << 6) | v;
        bits += 6;
        if bits >= 8 {
            bits -= 8;
            out.push((acc >> bits) as u8);
            acc &= (1 << bits) - 1;
        }
    }
    out
}
