//! s4v — the repository's own `src/bin/s4.rs`, unmodified, compiled as a module of this
//! crate with `crossbeam-channel` and `ctrlc` replaced by scheduler-aware shims.
#[path = "/repo/src/bin/s4.rs"]
#[allow(dead_code, unexpected_cfgs, unused_imports, clippy::all)]
mod s4;

fn main() {
    vsched::init_main();
    if vsched::controlled() {
        std::panic::set_hook(Box::new(|info| {
            let s = format!("{}", info);
            eprintln!("s4v: {}", s);
            vsched::died(&s);
        }));
    }
    #[cfg(s4_verif)]
    s4lib::verif::set_callbacks(s4lib::verif::Callbacks {
        point: vsched::hook_point,
        lock_acquire: vsched::hook_lock_acquire,
        lock_release: vsched::hook_lock_release,
    });
    #[cfg(s4_verif)]
    s4lib::verif::set_join_callback(vsched::hook_join);
    let code = s4::main();
    let c = if code == std::process::ExitCode::SUCCESS { 0 } else { 1 };
    if vsched::controlled() {
        vsched::main_return(c);
    }
    use std::io::Write;
    let _ = std::io::stdout().flush();
    std::process::exit(c);
}
