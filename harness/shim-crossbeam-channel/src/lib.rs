//! Shim of the crossbeam-channel subset used by src/bin/s4.rs, on top of `vsched`.
//! With S4V_TRACE unset every operation is a plain Mutex/Condvar pass-through.
use std::collections::VecDeque;
use std::fmt;
use std::sync::{Arc, Condvar, Mutex};
use vsched::Op;

struct Inner<T> {
    /// (queue, sender alive, receiver alive)
    q: Mutex<(VecDeque<T>, bool, bool)>,
    cv: Condvar,
    cap: usize,
    id: usize,
}
pub struct Sender<T> {
    inner: Arc<Inner<T>>,
}
pub struct Receiver<T> {
    inner: Arc<Inner<T>>,
}
#[derive(PartialEq, Eq, Clone, Copy)]
pub struct SendError<T>(pub T);
#[derive(PartialEq, Eq, Clone, Copy, Debug)]
pub struct RecvError;
impl<T> fmt::Debug for SendError<T> {
    fn fmt(&self, f: &mut fmt::Formatter) -> fmt::Result {
        write!(f, "SendError(..)")
    }
}
impl<T> fmt::Display for SendError<T> {
    fn fmt(&self, f: &mut fmt::Formatter) -> fmt::Result {
        write!(f, "sending on a disconnected channel")
    }
}
impl fmt::Display for RecvError {
    fn fmt(&self, f: &mut fmt::Formatter) -> fmt::Result {
        write!(f, "receiving on an empty and disconnected channel")
    }
}
impl<T> fmt::Debug for Sender<T> {
    fn fmt(&self, f: &mut fmt::Formatter) -> fmt::Result {
        write!(f, "Sender {{ {} }}", self.inner.id)
    }
}
impl<T> fmt::Debug for Receiver<T> {
    fn fmt(&self, f: &mut fmt::Formatter) -> fmt::Result {
        write!(f, "Receiver {{ {} }}", self.inner.id)
    }
}

/// global wake-up for pass-through `select`
static ACTIVITY: (Mutex<u64>, Condvar) = (Mutex::new(0), Condvar::new());
fn activity() {
    let mut g = ACTIVITY.0.lock().unwrap();
    *g += 1;
    ACTIVITY.1.notify_all();
}

pub fn bounded<T>(cap: usize) -> (Sender<T>, Receiver<T>) {
    let id = if vsched::controlled() { vsched::new_channel(cap) } else { 0 };
    let inner = Arc::new(Inner { q: Mutex::new((VecDeque::new(), true, true)), cv: Condvar::new(), cap, id });
    (Sender { inner: inner.clone() }, Receiver { inner })
}

impl<T> Sender<T> {
    pub fn send(&self, msg: T) -> Result<(), SendError<T>> {
        if vsched::controlled() {
            vsched::bind_sender(self.inner.id);
            let (_, ok) = vsched::park(Op::Send(self.inner.id));
            let r = if ok == 1 {
                self.inner.q.lock().unwrap().0.push_back(msg);
                Ok(())
            } else {
                Err(SendError(msg))
            };
            if vsched::postops() {
                vsched::park(Op::PostSend(self.inner.id));
            }
            r
        } else {
            let mut g = self.inner.q.lock().unwrap();
            loop {
                if !g.2 {
                    return Err(SendError(msg));
                }
                if g.0.len() < self.inner.cap {
                    g.0.push_back(msg);
                    self.inner.cv.notify_all();
                    drop(g);
                    activity();
                    return Ok(());
                }
                g = self.inner.cv.wait(g).unwrap();
            }
        }
    }
}
impl<T> Drop for Sender<T> {
    fn drop(&mut self) {
        if vsched::controlled() {
            vsched::bind_sender(self.inner.id);
            vsched::park(Op::SenderDrop(self.inner.id));
        }
        {
            let mut g = self.inner.q.lock().unwrap();
            g.1 = false;
            self.inner.cv.notify_all();
        }
        activity();
    }
}
impl<T> Drop for Receiver<T> {
    fn drop(&mut self) {
        if vsched::controlled() && vsched::my_tid().is_some() {
            vsched::park(Op::ReceiverDrop(self.inner.id));
        }
        let mut g = self.inner.q.lock().unwrap();
        g.2 = false;
        // a real bounded channel drops queued messages with the receiver only when both ends are gone;
        // senders blocked on a full queue must wake up and fail
        self.inner.cv.notify_all();
    }
}
impl<T> Receiver<T> {
    pub fn len(&self) -> usize {
        self.inner.q.lock().unwrap().0.len()
    }
    pub fn is_empty(&self) -> bool {
        self.len() == 0
    }
}

struct Probe<'a> {
    id: usize,
    /// returns (has item, sender alive)
    ready: Box<dyn Fn() -> (bool, bool) + 'a>,
}
pub struct Select<'a> {
    probes: Vec<Probe<'a>>,
}
pub struct SelectedOperation<'a> {
    index: usize,
    got_item: bool,
    _p: std::marker::PhantomData<&'a ()>,
}
impl<'a> Default for Select<'a> {
    fn default() -> Self {
        Self::new()
    }
}
impl<'a> Select<'a> {
    pub fn new() -> Select<'a> {
        Select { probes: vec![] }
    }
    pub fn recv<T>(&mut self, r: &'a Receiver<T>) -> usize {
        let inner: &'a Inner<T> = &r.inner;
        self.probes.push(Probe {
            id: inner.id,
            ready: Box::new(move || {
                let g = inner.q.lock().unwrap();
                (!g.0.is_empty(), g.1)
            }),
        });
        self.probes.len() - 1
    }
    pub fn select(&mut self) -> SelectedOperation<'a> {
        if vsched::controlled() {
            let ids: Vec<usize> = self.probes.iter().map(|p| p.id).collect();
            let (alt, r) = vsched::park(Op::Select(ids.clone()));
            let index = ids.iter().position(|c| *c == alt).expect("select alt");
            return SelectedOperation { index, got_item: r == 1, _p: Default::default() };
        }
        assert!(!self.probes.is_empty(), "select with no operations would block forever");
        let mut g = ACTIVITY.0.lock().unwrap();
        loop {
            for (index, p) in self.probes.iter().enumerate() {
                let (has, alive) = (p.ready)();
                if has {
                    return SelectedOperation { index, got_item: true, _p: Default::default() };
                }
                if !alive {
                    return SelectedOperation { index, got_item: false, _p: Default::default() };
                }
            }
            let (g2, _) = ACTIVITY
                .1
                .wait_timeout(g, std::time::Duration::from_millis(2))
                .unwrap();
            g = g2;
        }
    }
}
impl<'a> SelectedOperation<'a> {
    pub fn index(&self) -> usize {
        self.index
    }
    pub fn recv<T>(self, r: &Receiver<T>) -> Result<T, RecvError> {
        if self.got_item {
            let mut g = r.inner.q.lock().unwrap();
            let item = g.0.pop_front().expect("scheduler/queue mismatch");
            r.inner.cv.notify_all();
            Ok(item)
        } else {
            Err(RecvError)
        }
    }
}
