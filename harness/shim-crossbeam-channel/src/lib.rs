//! Shim of the crossbeam-channel subset used by src/bin/s4.rs, on top of `vsched`.
//! With S4V_TRACE unset every operation is a plain Mutex/Condvar pass-through.
use std::collections::VecDeque;
use std::fmt;
use std::sync::{Arc, Condvar, Mutex};
use vsched::Op;

struct Inner<T> {
    /// (queue, sender alive, receiver alive)
    q: Mutex<(VecDeque<T>, bool, bool)>,
    cv: Condvar,
    cap: usize,
    id: usize,
    /// multi-sender channel (`unbounded`): live sender handles, messages offered by threads outside the model
    /// (handle, message), handles whose offered message was taken
    ext: Option<Mutex<(usize, Vec<(usize, T)>, Vec<usize>)>>,
    xcv: Condvar,
}
pub struct Sender<T> {
    inner: Arc<Inner<T>>,
    /// handle id on a multi-sender channel
    handle: usize,
}
pub struct Receiver<T> {
    inner: Arc<Inner<T>>,
}
#[derive(PartialEq, Eq, Clone, Copy)]
pub struct SendError<T>(pub T);
#[derive(PartialEq, Eq, Clone, Copy, Debug)]
pub struct RecvError;
#[derive(PartialEq, Eq, Clone, Copy, Debug)]
pub struct SelectTimeoutError;
#[derive(PartialEq, Eq, Clone, Copy, Debug)]
pub struct TrySelectError;
#[derive(PartialEq, Eq, Clone, Copy, Debug)]
pub enum TryRecvError {
    Empty,
    Disconnected,
}
#[derive(PartialEq, Eq, Clone, Copy, Debug)]
pub enum RecvTimeoutError {
    Timeout,
    Disconnected,
}
#[derive(PartialEq, Eq, Clone, Copy)]
pub enum TrySendError<T> {
    Full(T),
    Disconnected(T),
}
impl<T> fmt::Debug for TrySendError<T> {
    fn fmt(&self, f: &mut fmt::Formatter) -> fmt::Result {
        match self {
            TrySendError::Full(_) => write!(f, "Full(..)"),
            TrySendError::Disconnected(_) => write!(f, "Disconnected(..)"),
        }
    }
}
macro_rules! disp {
    ($t:ty, $s:expr) => {
        impl fmt::Display for $t {
            fn fmt(&self, f: &mut fmt::Formatter) -> fmt::Result {
                write!(f, $s)
            }
        }
        impl std::error::Error for $t {}
    };
}
disp!(SelectTimeoutError, "timed out waiting on select");
disp!(TrySelectError, "all operations in select would block");
disp!(TryRecvError, "receiving on an empty or disconnected channel");
disp!(RecvTimeoutError, "timed out or disconnected");
impl std::error::Error for RecvError {}
impl<T> fmt::Debug for SendError<T> {
    fn fmt(&self, f: &mut fmt::Formatter) -> fmt::Result {
        write!(f, "SendError(..)")
    }
}
impl<T> fmt::Display for SendError<T> {
    fn fmt(&self, f: &mut fmt::Formatter) -> fmt::Result {
        write!(f, "sending on a disconnected channel")
    }
}
impl fmt::Display for RecvError {
    fn fmt(&self, f: &mut fmt::Formatter) -> fmt::Result {
        write!(f, "receiving on an empty and disconnected channel")
    }
}
impl<T> fmt::Debug for Sender<T> {
    fn fmt(&self, f: &mut fmt::Formatter) -> fmt::Result {
        write!(f, "Sender {{ {} }}", self.inner.id)
    }
}
impl<T> fmt::Debug for Receiver<T> {
    fn fmt(&self, f: &mut fmt::Formatter) -> fmt::Result {
        write!(f, "Receiver {{ {} }}", self.inner.id)
    }
}

/// global wake-up for pass-through `select`
static ACTIVITY: (Mutex<u64>, Condvar) = (Mutex::new(0), Condvar::new());
fn activity() {
    let mut g = ACTIVITY.0.lock().unwrap();
    *g += 1;
    ACTIVITY.1.notify_all();
}

pub fn bounded<T>(cap: usize) -> (Sender<T>, Receiver<T>) {
    let id = if vsched::controlled() { vsched::new_channel(cap) } else { 0 };
    let inner = Arc::new(Inner { q: Mutex::new((VecDeque::new(), true, true)), cv: Condvar::new(), cap, id, ext: None, xcv: Condvar::new() });
    (Sender { inner: inner.clone(), handle: 0 }, Receiver { inner })
}

/// A channel of unlimited capacity whose sender may be cloned. Under the controlled scheduler its senders are taken to
/// be helper threads outside the model: each `send` of such a thread is offered to the scheduler and the order in which
/// the receiving logical thread takes the offers is a scheduling decision (`Op::RecvExt`).
pub fn unbounded<T>() -> (Sender<T>, Receiver<T>) {
    let id = if vsched::controlled() { vsched::new_ext_channel() } else { 0 };
    let inner = Arc::new(Inner {
        q: Mutex::new((VecDeque::new(), true, true)),
        cv: Condvar::new(),
        cap: usize::MAX,
        id,
        ext: Some(Mutex::new((1, vec![], vec![]))),
        xcv: Condvar::new(),
    });
    (Sender { inner: inner.clone(), handle: 0 }, Receiver { inner })
}

impl<T> Clone for Sender<T> {
    fn clone(&self) -> Self {
        match &self.inner.ext {
            Some(x) => {
                x.lock().unwrap().0 += 1;
                let handle = if vsched::controlled() { vsched::ext_handle_new(self.inner.id) } else { 0 };
                Sender { inner: self.inner.clone(), handle }
            }
            None => panic!("s4v shim: cloning the sender of a bounded (per-worker) channel is not modelled"),
        }
    }
}

impl<T> Sender<T> {
    fn send_ext(&self, msg: T) -> Result<(), SendError<T>> {
        let x = self.inner.ext.as_ref().unwrap();
        if !self.inner.q.lock().unwrap().2 {
            return Err(SendError(msg));
        }
        if vsched::controlled() && vsched::my_tid().is_none() {
            // a thread outside the model: offer the message and wait until the receiver has taken it
            x.lock().unwrap().1.push((self.handle, msg));
            vsched::ext_sender_parked(self.inner.id, self.handle);
            let mut g = x.lock().unwrap();
            loop {
                if let Some(p) = g.2.iter().position(|h| *h == self.handle) {
                    g.2.remove(p);
                    return Ok(());
                }
                g = self.inner.xcv.wait_timeout(g, std::time::Duration::from_millis(50)).unwrap().0;
            }
        }
        self.inner.q.lock().unwrap().0.push_back(msg);
        if vsched::controlled() {
            vsched::ext_direct_send(self.inner.id);
        }
        self.inner.cv.notify_all();
        activity();
        Ok(())
    }
    pub fn send(&self, msg: T) -> Result<(), SendError<T>> {
        if self.inner.ext.is_some() {
            return self.send_ext(msg);
        }
        if vsched::controlled() {
            vsched::bind_sender(self.inner.id);
            let (_, ok) = vsched::park(Op::Send(self.inner.id));
            let r = if ok == 1 {
                self.inner.q.lock().unwrap().0.push_back(msg);
                Ok(())
            } else {
                Err(SendError(msg))
            };
            if vsched::postops() {
                vsched::park(Op::PostSend(self.inner.id));
            }
            r
        } else {
            let mut g = self.inner.q.lock().unwrap();
            loop {
                if !g.2 {
                    return Err(SendError(msg));
                }
                if g.0.len() < self.inner.cap {
                    g.0.push_back(msg);
                    self.inner.cv.notify_all();
                    drop(g);
                    activity();
                    return Ok(());
                }
                g = self.inner.cv.wait(g).unwrap();
            }
        }
    }
}
impl<T> Sender<T> {
    pub fn len(&self) -> usize {
        self.inner.q.lock().unwrap().0.len()
    }
    pub fn is_empty(&self) -> bool {
        self.len() == 0
    }
    pub fn is_full(&self) -> bool {
        self.len() >= self.inner.cap
    }
    pub fn capacity(&self) -> Option<usize> {
        Some(self.inner.cap)
    }
}
impl<T> Drop for Sender<T> {
    fn drop(&mut self) {
        if let Some(x) = &self.inner.ext {
            let left = {
                let mut g = x.lock().unwrap();
                g.0 -= 1;
                g.0
            };
            if vsched::controlled() {
                vsched::ext_handle_drop(self.inner.id);
            }
            if left == 0 {
                self.inner.q.lock().unwrap().1 = false;
            }
            self.inner.cv.notify_all();
            activity();
            return;
        }
        if vsched::controlled() {
            vsched::bind_sender(self.inner.id);
            vsched::park(Op::SenderDrop(self.inner.id));
        }
        {
            let mut g = self.inner.q.lock().unwrap();
            g.1 = false;
            self.inner.cv.notify_all();
        }
        activity();
    }
}
impl<T> Drop for Receiver<T> {
    fn drop(&mut self) {
        if self.inner.ext.is_none() && vsched::controlled() && vsched::my_tid().is_some() {
            vsched::park(Op::ReceiverDrop(self.inner.id));
        }
        let mut g = self.inner.q.lock().unwrap();
        g.2 = false;
        // a real bounded channel drops queued messages with the receiver only when both ends are gone;
        // senders blocked on a full queue must wake up and fail
        self.inner.cv.notify_all();
    }
}
pub struct Iter<'a, T> {
    r: &'a Receiver<T>,
}
impl<'a, T> Iterator for Iter<'a, T> {
    type Item = T;
    fn next(&mut self) -> Option<T> {
        self.r.recv().ok()
    }
}
impl<T> Receiver<T> {
    /// blocking iterator that ends when the channel is empty and disconnected
    pub fn iter(&self) -> Iter<'_, T> {
        Iter { r: self }
    }
    fn recv_ext_controlled(&self) -> Result<T, RecvError> {
        let x = self.inner.ext.as_ref().unwrap();
        let (alt, _r) = vsched::park(Op::RecvExt(self.inner.id));
        if alt == vsched::ALT_NONE {
            return Err(RecvError);
        }
        if alt == vsched::ALT_QUEUED {
            return self.inner.q.lock().unwrap().0.pop_front().ok_or(RecvError);
        }
        let mut g = x.lock().unwrap();
        let p = g.1.iter().position(|(h, _)| *h == alt).expect("scheduler/offer mismatch");
        let (h, msg) = g.1.remove(p);
        g.2.push(h);
        drop(g);
        self.inner.xcv.notify_all();
        Ok(msg)
    }
    pub fn recv(&self) -> Result<T, RecvError> {
        if self.inner.ext.is_some() && vsched::controlled() && vsched::my_tid().is_some() {
            return self.recv_ext_controlled();
        }
        let mut sel = Select::new();
        sel.recv(self);
        let op = sel.select();
        op.recv(self)
    }
    pub fn try_recv(&self) -> Result<T, TryRecvError> {
        let mut sel = Select::new();
        sel.recv(self);
        match sel.try_select() {
            Ok(op) => op.recv(self).map_err(|_| TryRecvError::Disconnected),
            Err(_) => Err(TryRecvError::Empty),
        }
    }
    pub fn recv_timeout(&self, timeout: std::time::Duration) -> Result<T, RecvTimeoutError> {
        let mut sel = Select::new();
        sel.recv(self);
        match sel.select_timeout(timeout) {
            Ok(op) => op.recv(self).map_err(|_| RecvTimeoutError::Disconnected),
            Err(_) => Err(RecvTimeoutError::Timeout),
        }
    }
    pub fn capacity(&self) -> Option<usize> {
        Some(self.inner.cap)
    }
    pub fn is_full(&self) -> bool {
        self.len() >= self.inner.cap
    }
    pub fn len(&self) -> usize {
        self.inner.q.lock().unwrap().0.len()
    }
    pub fn is_empty(&self) -> bool {
        self.len() == 0
    }
}

struct Probe<'a> {
    id: usize,
    /// returns (has item, sender alive)
    ready: Box<dyn Fn() -> (bool, bool) + 'a>,
}
pub struct Select<'a> {
    probes: Vec<Probe<'a>>,
}
pub struct SelectedOperation<'a> {
    index: usize,
    got_item: bool,
    _p: std::marker::PhantomData<&'a ()>,
}
impl<'a> Default for Select<'a> {
    fn default() -> Self {
        Self::new()
    }
}
impl<'a> Select<'a> {
    pub fn new() -> Select<'a> {
        Select { probes: vec![] }
    }
    pub fn recv<T>(&mut self, r: &'a Receiver<T>) -> usize {
        let inner: &'a Inner<T> = &r.inner;
        if inner.ext.is_some() && vsched::controlled() && vsched::my_tid().is_some() {
            panic!("s4v shim: select over a multi-sender channel is not modelled");
        }
        self.probes.push(Probe {
            id: inner.id,
            ready: Box::new(move || {
                let g = inner.q.lock().unwrap();
                (!g.0.is_empty(), g.1)
            }),
        });
        self.probes.len() - 1
    }
    /// kind: 0 blocking, 1 timeout, 2 non-blocking
    fn select_impl(&mut self, kind: u8, dur: Option<std::time::Duration>) -> Option<SelectedOperation<'a>> {
        if vsched::controlled() {
            let ids: Vec<usize> = self.probes.iter().map(|p| p.id).collect();
            let (alt, r) = vsched::park(Op::Select(ids.clone(), kind));
            if alt == vsched::ALT_NONE {
                return None;
            }
            let index = ids.iter().position(|c| *c == alt).expect("select alt");
            return Some(SelectedOperation { index, got_item: r == 1, _p: Default::default() });
        }
        assert!(kind != 0 || !self.probes.is_empty(), "select with no operations would block forever");
        let deadline = dur.map(|d| std::time::Instant::now() + d);
        let mut g = ACTIVITY.0.lock().unwrap();
        loop {
            for (index, p) in self.probes.iter().enumerate() {
                let (has, alive) = (p.ready)();
                if has {
                    return Some(SelectedOperation { index, got_item: true, _p: Default::default() });
                }
                if !alive {
                    return Some(SelectedOperation { index, got_item: false, _p: Default::default() });
                }
            }
            if kind == 2 {
                return None;
            }
            if let Some(dl) = deadline {
                if std::time::Instant::now() >= dl {
                    return None;
                }
            }
            let (g2, _) = ACTIVITY
                .1
                .wait_timeout(g, std::time::Duration::from_millis(2))
                .unwrap();
            g = g2;
        }
    }
    pub fn select(&mut self) -> SelectedOperation<'a> {
        self.select_impl(0, None).expect("blocking select returned nothing")
    }
    pub fn select_timeout(&mut self, timeout: std::time::Duration) -> Result<SelectedOperation<'a>, SelectTimeoutError> {
        self.select_impl(1, Some(timeout)).ok_or(SelectTimeoutError)
    }
    pub fn try_select(&mut self) -> Result<SelectedOperation<'a>, TrySelectError> {
        self.select_impl(2, None).ok_or(TrySelectError)
    }
}
impl<'a> SelectedOperation<'a> {
    pub fn index(&self) -> usize {
        self.index
    }
    pub fn recv<T>(self, r: &Receiver<T>) -> Result<T, RecvError> {
        if self.got_item {
            let mut g = r.inner.q.lock().unwrap();
            let item = g.0.pop_front().expect("scheduler/queue mismatch");
            r.inner.cv.notify_all();
            Ok(item)
        } else {
            Err(RecvError)
        }
    }
}
