//! vsched — controlled (baton-passing) scheduler for the s4 coordinator protocol.
//!
//! At most one logical thread runs between two *decisions*. Every logical thread is
//! parked before each visible operation having announced it; the controller decides
//! only at quiescence (every live thread parked or finished). A decision picks one
//! enabled (thread, alternative) pair: from `S4V_CHOICES` while the prefix lasts, else
//! alternative 0 of the canonical order (lowest thread id, lowest ready channel,
//! SIGINT last). The complete list of decisions (enabled sets, choice, state
//! fingerprint) is written to `S4V_TRACE` when `main` returns, on deadlock, on a bad
//! choice index and at the step limit.
//!
//! Environment:
//!   S4V_TRACE=<path>      turns control on (otherwise every call is a pass-through)
//!   S4V_CHOICES=a,b,c     choice prefix
//!   S4V_SIGINT=1          offer one SIGINT delivery as a schedulable event
//!   S4V_HOOKS=1           the cfg(s4_verif) hook points are compiled in (workers become
//!                         Running at the `spawned` point instead of main's first park)
//!   S4V_POSTOPS=1         extra yields after a send (C18 mode)
//!   S4V_SOURCES=a,b       basenames of the valid sources in PathId order (thread names)
//!   S4V_POLICY=main-first|workers-first|workers-reverse   default choice beyond the prefix
//!   S4V_TIMEOUTS=k        how often a select/recv timeout may fire per execution (default 2)
//!   S4V_STEP_LIMIT=n      decisions before the run is declared a livelock (default 20000)

use std::cell::Cell;
use std::collections::hash_map::DefaultHasher;
use std::hash::{Hash, Hasher};
use std::io::Write;
use std::sync::{Condvar, Mutex};

#[derive(Clone, Debug, Hash, PartialEq)]
pub enum Op {
    Send(usize),
    PostSend(usize),
    SenderDrop(usize),
    /// channels, kind: 0 blocking, 1 with timeout, 2 non-blocking (try)
    Select(Vec<usize>, u8),
    ReceiverDrop(usize),
    Point(&'static str),
    LockAcq(&'static str, bool),
    /// receive on a multi-sender ("external") channel whose senders are threads outside the model
    RecvExt(usize),
    /// `JoinHandle::join` on the worker with this logical thread id
    Join(usize),
}

impl Op {
    fn short(&self) -> String {
        match self {
            Op::Send(c) => format!("S{}", c),
            Op::PostSend(c) => format!("PS{}", c),
            Op::SenderDrop(c) => format!("SD{}", c),
            Op::Select(v, k) => format!(
                "SEL{}[{}]",
                match k { 0 => "", 1 => "t", _ => "n" },
                v.iter()
                    .map(|x| x.to_string())
                    .collect::<Vec<_>>()
                    .join(" ")
            ),
            Op::ReceiverDrop(c) => format!("RD{}", c),
            Op::Point(n) => format!("P:{}", n),
            Op::LockAcq(n, w) => format!("L:{}:{}", n, if *w { "W" } else { "R" }),
            Op::RecvExt(c) => format!("RX{}", c),
            Op::Join(t) => format!("J{}", t),
        }
    }
}

#[derive(Clone, Debug, Hash, PartialEq)]
enum Status {
    Pending,
    Running,
    Parked(Op),
    Finished,
    /// main has not come back to the scheduler for `BLOCK_MS` while every other thread is parked: it is taken to be
    /// blocked in a call the model does not see (e.g. `JoinHandle::join` at a place without a hook); the other
    /// threads go on, and if none of them can move the state is a deadlock
    BlockedOutside,
}

struct Th {
    status: Status,
    ops_done: u64,
    /// hash of the sequence of (op, alternative, result) this thread completed
    hist: u64,
    name: String,
}

/// A channel with several senders that are not logical threads of the model (e.g. helper threads spawned by main
/// that report over one shared unbounded channel). Each sender handle gets an id in creation (clone) order; a send by
/// such a thread is *offered* to the scheduler and completes when the receiving logical thread's `RecvExt` picks it.
struct Ext {
    handles_alive: usize,
    next_handle: usize,
    /// handles whose owner is blocked in `send`
    parked: Vec<usize>,
    /// messages pushed directly by logical threads
    queued: usize,
    last_change: std::time::Instant,
}

struct Chan {
    cap: usize,
    sent: u64,
    recvd: u64,
    sender_alive: bool,
    receiver_alive: bool,
}

#[derive(Clone, Copy, PartialEq, Debug, Hash)]
enum Sig {
    NotInstalled,
    Armed,
    Delivered,
}

struct Decision {
    enabled: Vec<(usize, usize, String)>,
    chosen: usize,
    fp: u64,
}

struct State {
    threads: Vec<Th>,
    chans: Vec<Chan>,
    exts: Vec<Ext>,
    granted: Option<(usize, usize)>,
    choices: Vec<usize>,
    trace: Vec<Decision>,
    sig: Sig,
    sig_enabled: bool,
    hooks: bool,
    events: Vec<String>,
    max_q: usize,
    locks: Vec<(&'static str, usize, bool)>,
    step_limit: usize,
    policy: u8,
    timeouts_used: usize,
    timeouts_max: usize,
    last_tid: Option<usize>,
}

static STATE: Mutex<Option<State>> = Mutex::new(None);
static CV: Condvar = Condvar::new();
static SIGCB: Mutex<Option<Box<dyn FnOnce() + Send>>> = Mutex::new(None);
thread_local! { static TID: Cell<Option<usize>> = const { Cell::new(None) }; }
pub const SIGTID: usize = usize::MAX;
/// select alternative: timeout fired / nothing ready
pub const ALT_NONE: usize = usize::MAX - 1;
/// RecvExt alternative: take a message a logical thread pushed directly
pub const ALT_QUEUED: usize = usize::MAX - 2;
/// how long a RecvExt waits for the remaining live sender handles to arrive before deciding without them
const EXT_GRACE_MS: u128 = 1500;
/// how long main may stay away from the scheduler (all others parked) before it is taken to be blocked outside the model
const BLOCK_MS: u128 = 2500;
static LAST_PROGRESS: Mutex<Option<std::time::Instant>> = Mutex::new(None);
fn progress() {
    *LAST_PROGRESS.lock().unwrap() = Some(std::time::Instant::now());
}
fn since_progress_ms() -> u128 {
    LAST_PROGRESS.lock().unwrap().map(|t| t.elapsed().as_millis()).unwrap_or(0)
}

static CONTROLLED: std::sync::OnceLock<bool> = std::sync::OnceLock::new();
static POSTOPS: std::sync::OnceLock<bool> = std::sync::OnceLock::new();

/// Is the controlled scheduler on?
pub fn controlled() -> bool {
    *CONTROLLED.get_or_init(|| std::env::var_os("S4V_TRACE").is_some())
}

/// Are post-operation yields on (C18 mode)?
pub fn postops() -> bool {
    *POSTOPS.get_or_init(|| std::env::var_os("S4V_POSTOPS").is_some())
}

fn mix(h: u64, x: impl Hash) -> u64 {
    let mut s = DefaultHasher::new();
    h.hash(&mut s);
    x.hash(&mut s);
    s.finish()
}

pub fn init_main() {
    if !controlled() {
        return;
    }
    let choices: Vec<usize> = std::env::var("S4V_CHOICES")
        .unwrap_or_default()
        .split(',')
        .filter(|s| !s.is_empty())
        .map(|s| s.parse().expect("S4V_CHOICES"))
        .collect();
    let sig_enabled = std::env::var_os("S4V_SIGINT").is_some();
    let hooks = std::env::var_os("S4V_HOOKS").is_some();
    let step_limit = std::env::var("S4V_STEP_LIMIT")
        .ok()
        .and_then(|s| s.parse().ok())
        .unwrap_or(20000usize);
    let mut g = STATE.lock().unwrap();
    *g = Some(State {
        threads: vec![Th { status: Status::Running, ops_done: 0, hist: 0, name: "main".into() }],
        chans: vec![],
        exts: vec![],
        granted: None,
        choices,
        trace: vec![],
        sig: Sig::NotInstalled,
        sig_enabled,
        hooks,
        events: vec![],
        max_q: 0,
        locks: vec![],
        step_limit,
        timeouts_used: 0,
        last_tid: None,
        timeouts_max: std::env::var("S4V_TIMEOUTS").ok().and_then(|s| s.parse().ok()).unwrap_or(2),
        policy: match std::env::var("S4V_POLICY").as_deref() {
            Ok("workers-first") => 1,
            Ok("workers-reverse") => 2,
            Ok("sticky") => 3,
            _ => 0,
        },
    });
    TID.with(|t| t.set(Some(0)));
}

/// A new channel: its (not yet spawned) worker is registered *Pending*.
pub fn new_channel(cap: usize) -> usize {
    let mut g = STATE.lock().unwrap();
    let st = g.as_mut().expect("vsched not initialised");
    st.chans.push(Chan { cap, sent: 0, recvd: 0, sender_alive: true, receiver_alive: true });
    let c = st.chans.len() - 1;
    st.threads.push(Th { status: Status::Pending, ops_done: 0, hist: 0, name: format!("w{}", c) });
    // the worker's logical thread id (the handler thread may have been created in between)
    CHAN_TID.lock().unwrap().push(st.threads.len() - 1);
    c
}

/// logical thread id of the worker that owns channel `c`
static CHAN_TID: Mutex<Vec<usize>> = Mutex::new(Vec::new());

fn tid_for_chan(c: usize) -> usize {
    CHAN_TID.lock().unwrap()[c]
}

/// Bind the calling OS thread to the worker that owns channel `c` (first use wins).
pub fn bind_sender(c: usize) -> usize {
    TID.with(|t| {
        if t.get().is_none() {
            t.set(Some(tid_for_chan(c)));
        }
        t.get().unwrap()
    })
}

pub fn my_tid() -> Option<usize> {
    TID.with(|t| {
        if t.get().is_none() {
            // worker threads are named after the source's basename; order given by S4V_SOURCES
            if let (Some(name), Ok(srcs)) =
                (std::thread::current().name().map(|s| s.to_string()), std::env::var("S4V_SOURCES"))
            {
                if let Some(i) = srcs.split(',').position(|x| x == name) {
                    if let Some(tid) = CHAN_TID.lock().unwrap().get(i) {
                        t.set(Some(*tid));
                    }
                }
            }
        }
        t.get()
    })
}

pub fn install_sigint(cb: Box<dyn FnOnce() + Send>) {
    *SIGCB.lock().unwrap() = Some(cb);
    let mut g = STATE.lock().unwrap();
    if let Some(st) = g.as_mut() {
        st.sig = Sig::Armed;
    }
}

impl State {
    fn quiescent(&self) -> bool {
        self.threads
            .iter()
            .all(|t| t.status != Status::Running)
    }

    /// exactly one thread is running, nothing is granted and nothing has happened for a while: that thread is taken to be
    /// blocked in a call the model does not see (an un-hooked join, a real lock that is not a hook point)
    fn seems_blocked(&self) -> Option<usize> {
        if self.granted.is_some() || since_progress_ms() <= BLOCK_MS {
            return None;
        }
        let running: Vec<usize> = self.threads.iter().enumerate().filter(|(_, t)| t.status == Status::Running).map(|(i, _)| i).collect();
        if running.len() != 1 || self.threads.iter().any(|t| t.status == Status::Pending) {
            return None;
        }
        if !self.threads.iter().any(|t| matches!(t.status, Status::Parked(_))) {
            return None;
        }
        Some(running[0])
    }

    /// every thread parked on a RecvExt sees all live sender handles of its channel blocked in `send`
    /// (or the grace period for stragglers is over)
    fn ext_ready(&mut self) -> bool {
        let mut ready = true;
        let mut late = vec![];
        for th in self.threads.iter() {
            if let Status::Parked(Op::RecvExt(c)) = &th.status {
                let x = &self.exts[*c];
                if x.parked.len() != x.handles_alive {
                    if x.last_change.elapsed().as_millis() > EXT_GRACE_MS {
                        late.push(*c);
                    } else {
                        ready = false;
                    }
                }
            }
        }
        if ready {
            for c in late {
                self.events.push(format!("extq-timeout{}", c));
            }
        }
        ready
    }

    fn start_pending(&mut self) {
        for t in self.threads.iter_mut() {
            if t.status == Status::Pending {
                t.status = Status::Running;
            }
        }
    }

    fn enabled(&self) -> Vec<(usize, usize, String)> {
        let mut v = vec![];
        for (tid, th) in self.threads.iter().enumerate() {
            if let Status::Parked(op) = &th.status {
                match op {
                    Op::Send(c) => {
                        let ch = &self.chans[*c];
                        if ((ch.sent - ch.recvd) as usize) < ch.cap || !ch.receiver_alive {
                            v.push((tid, 0, op.short()));
                        }
                    }
                    // pseudo-lock "JOIN": the thread waits for every worker thread to end (JoinHandle::join)
                    // the start of main's join loop: a plain point; each `JoinHandle::join` is an `Op::Join` of its own
                    Op::LockAcq(name, _) if *name == "JOIN" => {
                        v.push((tid, 0, op.short()));
                    }
                    Op::Join(w) => {
                        if self.threads[*w].status == Status::Finished {
                            v.push((tid, 0, op.short()));
                        }
                    }
                    Op::LockAcq(name, write) => {
                        let held: Vec<&(&'static str, usize, bool)> =
                            self.locks.iter().filter(|l| l.0 == *name).collect();
                        let ok = if *write { held.is_empty() } else { held.iter().all(|l| !l.2) };
                        if ok {
                            v.push((tid, 0, op.short()));
                        }
                    }
                    Op::Select(cs, kind) => {
                        let mut any = false;
                        for c in cs {
                            let ch = &self.chans[*c];
                            if ch.sent > ch.recvd || !ch.sender_alive {
                                v.push((tid, *c, format!("SEL>{}", c)));
                                any = true;
                            }
                        }
                        // a timeout can fire whenever the environment is slow enough (bounded per execution);
                        // a non-blocking select answers "nothing ready" only when nothing is ready
                        if (*kind == 1 && self.timeouts_used < self.timeouts_max) || (*kind == 2 && !any) {
                            v.push((tid, ALT_NONE, "SEL>none".to_string()));
                        }
                    }
                    Op::RecvExt(c) => {
                        let x = &self.exts[*c];
                        if x.queued > 0 {
                            v.push((tid, ALT_QUEUED, format!("RX{}>q", c)));
                        }
                        let mut hs = x.parked.clone();
                        hs.sort();
                        for h in hs {
                            v.push((tid, h, format!("RX{}>h{}", c, h)));
                        }
                        if x.queued == 0 && x.parked.is_empty() && x.handles_alive == 0 {
                            v.push((tid, ALT_NONE, format!("RX{}>closed", c)));
                        }
                    }
                    _ => v.push((tid, 0, op.short())),
                }
            }
        }
        // canonical order: once the signal is delivered its handler thread comes first (it runs as soon as it can),
        // then main, then the workers; delivering the signal is the last alternative
        if let Some(h) = self.threads.iter().position(|t| t.name == "handler") {
            let (mut a, b): (Vec<_>, Vec<_>) = v.into_iter().partition(|e| e.0 == h);
            a.extend(b);
            v = a;
        }
        if self.sig_enabled && self.sig == Sig::Armed && self.threads[0].status != Status::Finished {
            v.push((SIGTID, 0, "SIGINT".into()));
        }
        // no handler installed (yet): the default action of SIGINT ends the process at once, whatever the threads hold
        if self.sig_enabled && self.sig == Sig::NotInstalled && self.threads[0].status != Status::Finished {
            v.push((SIGTID, 1, "SIGINT-default-action".into()));
        }
        v
    }

    fn fp(&self) -> u64 {
        let mut h = DefaultHasher::new();
        for th in &self.threads {
            th.status.hash(&mut h);
            th.ops_done.hash(&mut h);
            th.hist.hash(&mut h);
        }
        for c in &self.chans {
            (c.sent, c.recvd, c.sender_alive, c.receiver_alive).hash(&mut h);
        }
        for x in &self.exts {
            let mut p = x.parked.clone();
            p.sort();
            (p, x.queued).hash(&mut h);
        }
        self.sig.hash(&mut h);
        self.timeouts_used.hash(&mut h);
        self.locks.hash(&mut h);
        h.finish()
    }

    fn dump_and_exit(&mut self, outcome: &str, code: i32) -> ! {
        let path = std::env::var("S4V_TRACE").unwrap();
        let mut s = String::new();
        s.push_str(&format!(
            "{{\"outcome\":\"{}\",\"exit\":{},\"max_q\":{},\"main_hist\":\"{:016x}\",\"threads\":[",
            outcome, code, self.max_q, self.threads[0].hist
        ));
        for (i, th) in self.threads.iter().enumerate() {
            if i > 0 {
                s.push(',');
            }
            let stat = match &th.status {
                Status::Pending => "pending".to_string(),
                Status::Running => "running".to_string(),
                Status::Parked(op) => format!("parked@{}", op.short()),
                Status::Finished => "finished".to_string(),
                Status::BlockedOutside => "blocked-outside-the-model".to_string(),
            };
            s.push_str(&format!("{{\"name\":\"{}\",\"status\":\"{}\",\"ops\":{}}}", th.name, stat, th.ops_done));
        }
        s.push_str("],\"decisions\":[");
        for (i, d) in self.trace.iter().enumerate() {
            if i > 0 {
                s.push(',');
            }
            let en: Vec<String> = d
                .enabled
                .iter()
                .map(|(t, a, n)| format!("[{},{},\"{}\"]", if *t == SIGTID { -1 } else { *t as i64 }, a, n))
                .collect();
            s.push_str(&format!(
                "{{\"c\":{},\"fp\":\"{:016x}\",\"e\":[{}]}}",
                d.chosen,
                d.fp,
                en.join(",")
            ));
        }
        s.push_str("],\"events\":[");
        s.push_str(
            &self
                .events
                .iter()
                .map(|e| format!("\"{}\"", e))
                .collect::<Vec<_>>()
                .join(","),
        );
        s.push_str("]}");
        let tmp = format!("{}.tmp", path);
        std::fs::write(&tmp, s).unwrap();
        std::fs::rename(&tmp, &path).unwrap();
        let _ = std::io::stdout().flush();
        let _ = std::io::stderr().flush();
        unsafe { libc::_exit(code) }
    }

    fn decide(&mut self) {
        let en = self.enabled();
        if en.is_empty() {
            self.dump_and_exit("deadlock", 3);
        }
        progress();
        let pos = self.trace.len();
        let chosen = if pos < self.choices.len() {
            self.choices[pos]
        } else {
            match self.policy {
                // coordinator first (canonical order)
                0 => 0,
                // lowest-numbered worker first, coordinator only when no worker can move
                1 => en.iter().position(|e| e.0 != 0 && e.0 != SIGTID).unwrap_or(0),
                // highest-numbered worker first
                2 => en.iter().rposition(|e| e.0 != 0 && e.0 != SIGTID).unwrap_or(0),
                // non-preemptive: the thread that ran last continues while it can (a deviation is then a preemption)
                _ => self
                    .last_tid
                    .and_then(|t| en.iter().position(|e| e.0 == t))
                    .unwrap_or(0),
            }
        };
        if chosen >= en.len() {
            self.dump_and_exit("bad-choice", 4);
        }
        let fp = self.fp();
        self.trace.push(Decision { enabled: en.clone(), chosen, fp });
        if self.trace.len() > self.step_limit {
            self.dump_and_exit("step-limit", 5);
        }
        let (tid, alt, _) = en[chosen].clone();
        if tid == SIGTID && alt == 1 {
            self.events.push("sigint-default-kill".into());
            self.dump_and_exit("killed-by-sigint", 130);
        }
        if tid == SIGTID {
            self.sig = Sig::Delivered;
            self.events.push("sigint".into());
            self.threads.push(Th { status: Status::Running, ops_done: 0, hist: 0, name: "handler".into() });
            let htid = self.threads.len() - 1;
            let cb = SIGCB.lock().unwrap().take().expect("no SIGINT handler stored");
            std::thread::Builder::new()
                .name("s4v-handler".into())
                .spawn(move || {
                    TID.with(|t| t.set(Some(htid)));
                    cb();
                    finish(htid);
                })
                .expect("spawn handler");
        } else {
            self.granted = Some((tid, alt));
            self.last_tid = Some(tid);
        }
    }

    fn apply(&mut self, tid: usize, op: &Op, alt: usize) -> usize {
        let r = match op {
            Op::Send(c) => {
                let ch = &mut self.chans[*c];
                if ch.receiver_alive {
                    ch.sent += 1;
                    let q = (ch.sent - ch.recvd) as usize;
                    if q > self.max_q {
                        self.max_q = q;
                    }
                    self.events.push(format!("s{}", c));
                    1
                } else {
                    self.events.push(format!("e{}", c));
                    0
                }
            }
            Op::Select(_, kind) if alt == ALT_NONE => {
                if *kind == 1 {
                    self.timeouts_used += 1;
                }
                self.events.push("t".to_string());
                2
            }
            Op::Select(_, _) => {
                let ch = &mut self.chans[alt];
                if ch.sent > ch.recvd {
                    ch.recvd += 1;
                    self.events.push(format!("r{}", alt));
                    1
                } else {
                    self.events.push(format!("x{}", alt));
                    0
                }
            }
            Op::SenderDrop(c) => {
                self.chans[*c].sender_alive = false;
                self.threads[tid].status = Status::Finished;
                self.events.push(format!("d{}", c));
                0
            }
            Op::ReceiverDrop(c) => {
                self.chans[*c].receiver_alive = false;
                self.events.push(format!("D{}", c));
                0
            }
            Op::LockAcq(name, write) => {
                self.locks.push((*name, tid, *write));
                self.events.push(format!("l{}:{}", tid, name));
                0
            }
            Op::Point(name) => {
                self.events.push(format!("p{}:{}", tid, name));
                0
            }
            Op::PostSend(_) => 0,
            Op::Join(w) => {
                self.events.push(format!("j{}", w));
                0
            }
            Op::RecvExt(c) => {
                let x = &mut self.exts[*c];
                x.last_change = std::time::Instant::now();
                if alt == ALT_NONE {
                    self.events.push(format!("xx{}", c));
                    0
                } else if alt == ALT_QUEUED {
                    x.queued -= 1;
                    self.events.push(format!("rxq{}", c));
                    1
                } else {
                    x.parked.retain(|h| *h != alt);
                    self.events.push(format!("rx{}h{}", c, alt));
                    1
                }
            }
        };
        let th = &mut self.threads[tid];
        th.hist = mix(th.hist, (op, alt, r));
        r
    }
}

/// Park before `op`; returns `(alt, result)`; result is op-specific
/// (Send: 1 ok / 0 receiver gone; Select: 1 item / 0 disconnected).
pub fn park(op: Op) -> (usize, usize) {
    let tid = my_tid().expect("vsched: thread not bound to a logical thread");
    let mut g = STATE.lock().unwrap();
    {
        let st = g.as_mut().unwrap();
        if tid == 0 && (!st.hooks || op == Op::Point("spawned")) {
            st.start_pending();
        }
        if tid != 0 && st.threads[tid].status == Status::Pending {
            st.threads[tid].status = Status::Running;
        }
        st.threads[tid].status = Status::Parked(op.clone());
    }
    progress();
    loop {
        let st = g.as_mut().unwrap();
        if let Some((gt, alt)) = st.granted {
            if gt == tid {
                st.granted = None;
                st.threads[tid].status = Status::Running;
                st.threads[tid].ops_done += 1;
                let r = st.apply(tid, &op, alt);
                if st.threads[tid].status == Status::Finished && st.granted.is_none() && st.quiescent() && st.ext_ready() {
                    st.decide();
                    CV.notify_all();
                }
                return (alt, r);
            }
        } else if st.quiescent() {
            if st.ext_ready() {
                st.decide();
                CV.notify_all();
                continue;
            }
            // senders outside the model are still on their way: look again shortly
            g = CV.wait_timeout(g, std::time::Duration::from_millis(20)).unwrap().0;
            continue;
        } else if let Some(b) = st.seems_blocked() {
            if b != tid {
                st.threads[b].status = Status::BlockedOutside;
                st.events.push(format!("blocked-outside-t{}", b));
                continue;
            }
        }
        g = CV.wait_timeout(g, std::time::Duration::from_millis(250)).unwrap().0;
    }
}

/// A new multi-sender channel (crossbeam `unbounded`): returns its id in the external-channel table.
pub fn new_ext_channel() -> usize {
    let mut g = STATE.lock().unwrap();
    let st = g.as_mut().expect("vsched not initialised");
    st.exts.push(Ext { handles_alive: 1, next_handle: 1, parked: vec![], queued: 0, last_change: std::time::Instant::now() });
    st.exts.len() - 1
}

/// `Sender::clone` on an external channel: a new handle id (creation order).
pub fn ext_handle_new(c: usize) -> usize {
    let mut g = STATE.lock().unwrap();
    let st = g.as_mut().unwrap();
    let x = &mut st.exts[c];
    x.handles_alive += 1;
    x.next_handle += 1;
    x.last_change = std::time::Instant::now();
    CV.notify_all();
    x.next_handle - 1
}

pub fn ext_handle_drop(c: usize) {
    let mut g = STATE.lock().unwrap();
    if let Some(st) = g.as_mut() {
        let x = &mut st.exts[c];
        x.handles_alive = x.handles_alive.saturating_sub(1);
        x.last_change = std::time::Instant::now();
    }
    CV.notify_all();
}

/// A thread outside the model is blocked in `send` through handle `h`.
pub fn ext_sender_parked(c: usize, h: usize) {
    let mut g = STATE.lock().unwrap();
    if let Some(st) = g.as_mut() {
        let x = &mut st.exts[c];
        x.parked.push(h);
        x.last_change = std::time::Instant::now();
    }
    CV.notify_all();
}

/// A logical thread pushed a message directly.
pub fn ext_direct_send(c: usize) {
    let mut g = STATE.lock().unwrap();
    if let Some(st) = g.as_mut() {
        st.exts[c].queued += 1;
        st.exts[c].last_change = std::time::Instant::now();
    }
    CV.notify_all();
}

pub fn finish(tid: usize) {
    let mut g = STATE.lock().unwrap();
    let st = g.as_mut().unwrap();
    st.threads[tid].status = Status::Finished;
    st.locks.retain(|l| l.1 != tid);
    if st.granted.is_none() && st.quiescent() && st.ext_ready() {
        st.decide();
    }
    CV.notify_all();
}

pub fn main_return(code: i32) -> ! {
    let mut g = STATE.lock().unwrap();
    let st = g.as_mut().unwrap();
    st.threads[0].status = Status::Finished;
    st.dump_and_exit("completed", code)
}

/// Called from the panic hook: some thread of the subject panicked.
pub fn died(what: &str) -> ! {
    // do not take STATE (the panicking thread may hold it); write a minimal trace
    if let Ok(path) = std::env::var("S4V_TRACE") {
        let w: String = what
            .chars()
            .map(|c| if c == '"' || c == '\\' || (c as u32) < 0x20 { ' ' } else { c })
            .collect();
        let _ = std::fs::write(
            format!("{}.died", path),
            format!("{{\"outcome\":\"died\",\"what\":\"{}\"}}", w),
        );
    }
    let _ = std::io::stdout().flush();
    unsafe { libc::_exit(101) }
}

pub fn lock_release(name: &'static str) {
    if let Some(tid) = my_tid() {
        let mut g = STATE.lock().unwrap();
        if let Some(st) = g.as_mut() {
            st.locks.retain(|l| !(l.0 == name && l.1 == tid));
        }
    }
}

static HOOKS_ON: std::sync::OnceLock<bool> = std::sync::OnceLock::new();

/// The cfg(s4_verif) hook points are scheduling points only when S4V_HOOKS is set (C18); otherwise they are inert,
/// so the schedule spaces of C01/C06 are those of the channel operations alone.
pub fn hooks_on() -> bool {
    *HOOKS_ON.get_or_init(|| std::env::var_os("S4V_HOOKS").is_some())
}

static ONCE_ON: std::sync::OnceLock<bool> = std::sync::OnceLock::new();

/// Called by the instrumented once_cell before an access to a cell that is not yet initialised.
/// A scheduling point only when S4V_ONCE is set and the thread is a logical thread of the run.
pub fn oncecell_point() {
    if !controlled() {
        return;
    }
    if !*ONCE_ON.get_or_init(|| std::env::var_os("S4V_ONCE").is_some()) {
        return;
    }
    if my_tid().is_some() {
        park(Op::Point("once"));
    }
}

pub fn hook_point(name: &'static str) {
    if controlled() && hooks_on() && my_tid().is_some() {
        park(Op::Point(name));
    }
}

pub fn hook_lock_acquire(name: &'static str, write: bool) {
    // the wait for the worker threads (JoinHandle::join) blocks the OS thread, so the scheduler must always know about it
    if controlled() && (hooks_on() || name == "JOIN") && my_tid().is_some() {
        park(Op::LockAcq(name, write));
    }
}

/// `JoinHandle::join` on the thread with this name: wait (as a scheduling point) until that worker has finished.
/// Threads the model does not know are not waited for here (the real join that follows does that).
pub fn hook_join(name: &str) {
    if !controlled() || my_tid().is_none() {
        return;
    }
    let target = std::env::var("S4V_SOURCES").ok().and_then(|srcs| srcs.split(',').position(|x| x == name)).and_then(|i| CHAN_TID.lock().unwrap().get(i).cloned());
    if let Some(w) = target {
        park(Op::Join(w));
    }
}

pub fn hook_lock_release(name: &'static str) {
    if controlled() && (hooks_on() || name == "JOIN") {
        lock_release(name);
    }
}
