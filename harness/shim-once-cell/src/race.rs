//! Thread-safe, non-blocking, "first one wins" flavor of `OnceCell`.
//!
//! If two threads race to initialize a type from the `race` module, they
//! don't block, execute initialization function together, but only one of
//! them stores the result.
//!
//! This module does not require `std` feature.
//!
//! # Atomic orderings
//!
//! All types in this module use `Acquire` and `Release`
//! [atomic orderings](Ordering) for all their operations. While this is not
//! strictly necessary for types other than `OnceBox`, it is useful for users as
//! it allows them to be certain that after `get` or `get_or_init` returns on
//! one thread, any side-effects caused by the setter thread prior to them
//! calling `set` or `get_or_init` will be made visible to that thread; without
//! it, it's possible for it to appear as if they haven't happened yet from the
//! getter thread's perspective. This is an acceptable tradeoff to make since
//! `Acquire` and `Release` have very little performance overhead on most
//! architectures versus `Relaxed`.

// The "atomic orderings" section of the documentation above promises
// "happens-before" semantics. This drives the choice of orderings in the uses
// of `compare_exchange` below. On success, the value was zero/null, so there
// was nothing to acquire (there is never any `Ordering::Release` store of 0).
// On failure, the value was nonzero, so it was initialized previously (perhaps
// on another thread) using `Ordering::Release`, so we must use
// `Ordering::Acquire` to ensure that store "happens-before" this load.

#[cfg(not(feature = "portable-atomic"))]
use core::sync::atomic;
#[cfg(feature = "portable-atomic")]
use portable_atomic as atomic;

use atomic::{AtomicPtr, AtomicUsize, Ordering};
use core::cell::UnsafeCell;
use core::marker::PhantomData;
use core::num::NonZeroUsize;
use core::ptr;

/// A thread-safe cell which can be written to only once.
#[derive(Default, Debug)]
pub struct OnceNonZeroUsize {
    inner: AtomicUsize,
}

impl OnceNonZeroUsize {
    /// Creates a new empty cell.
    #[inline]
    pub const fn new() -> Self {
        Self { inner: AtomicUsize::new(0) }
    }

    /// Gets the underlying value.
    #[inline]
    pub fn get(&self) -> Option<NonZeroUsize> {
        let val = self.inner.load(Ordering::Acquire);
        NonZeroUsize::new(val)
    }

    /// Get the reference to the underlying value, without checking if the cell
    /// is initialized.
    ///
    /// # Safety
    ///
    /// Caller must ensure that the cell is in initialized state, and that
    /// the contents are acquired by (synchronized to) this thread.
    pub unsafe fn get_unchecked(&self) -> NonZeroUsize {
        #[inline(always)]
        fn as_const_ptr(r: &AtomicUsize) -> *const usize {
            use core::mem::align_of;

            let p: *const AtomicUsize = r;
            // SAFETY: "This type has the same size and bit validity as
            // the underlying integer type, usize. However, the alignment of
            // this type is always equal to its size, even on targets where
            // usize has a lesser alignment."
            const _ALIGNMENT_COMPATIBLE: () =
                assert!(align_of::<AtomicUsize>() % align_of::<usize>() == 0);
            p.cast::<usize>()
        }

        // TODO(MSRV-1.70): Use `AtomicUsize::as_ptr().cast_const()`
        // See https://github.com/rust-lang/rust/issues/138246.
        let p = as_const_ptr(&self.inner);

        // SAFETY: The caller is responsible for ensuring that the value
        // was initialized and that the contents have been acquired by
        // this thread. Assuming that, we can assume there will be no
        // conflicting writes to the value since the value will never
        // change once initialized. This relies on the statement in
        // https://doc.rust-lang.org/1.83.0/core/sync/atomic/ that "(A
        // `compare_exchange` or `compare_exchange_weak` that does not
        // succeed is not considered a write."
        let val = unsafe { p.read() };

        // SAFETY: The caller is responsible for ensuring the value is
        // initialized and thus not zero.
        unsafe { NonZeroUsize::new_unchecked(val) }
    }

    /// Sets the contents of this cell to `value`.
    ///
    /// Returns `Ok(())` if the cell was empty and `Err(())` if it was
    /// full.
    #[inline]
    pub fn set(&self, value: NonZeroUsize) -> Result<(), ()> {
        match self.compare_exchange(value) {
            Ok(_) => Ok(()),
            Err(_) => Err(()),
        }
    }

    /// Gets the contents of the cell, initializing it with `f` if the cell was
    /// empty.
    ///
    /// If several threads concurrently run `get_or_init`, more than one `f` can
    /// be called. However, all threads will return the same value, produced by
    /// some `f`.
    pub fn get_or_init<F>(&self, f: F) -> NonZeroUsize
    where
        F: FnOnce() -> NonZeroUsize,
    {
        enum Void {}
        match self.get_or_try_init(|| Ok::<NonZeroUsize, Void>(f())) {
            Ok(val) => val,
            Err(void) => match void {},
        }
    }

    /// Gets the contents of the cell, initializing it with `f` if
    /// the cell was empty. If the cell was empty and `f` failed, an
    /// error is returned.
    ///
    /// If several threads concurrently run `get_or_init`, more than one `f` can
    /// be called. However, all threads will return the same value, produced by
    /// some `f`.
    pub fn get_or_try_init<F, E>(&self, f: F) -> Result<NonZeroUsize, E>
    where
        F: FnOnce() -> Result<NonZeroUsize, E>,
    {
        match self.get() {
            Some(it) => Ok(it),
            None => self.init(f),
        }
    }

    #[cold]
    #[inline(never)]
    fn init<E>(&self, f: impl FnOnce() -> Result<NonZeroUsize, E>) -> Result<NonZeroUsize, E> {
        let nz = f()?;
        let mut val = nz.get();
        if let Err(old) = self.compare_exchange(nz) {
            val = old;
        }
        Ok(unsafe { NonZeroUsize::new_unchecked(val) })
    }

    #[inline(always)]
    fn compare_exchange(&self, val: NonZeroUsize) -> Result<usize, usize> {
        self.inner.compare_exchange(0, val.get(), Ordering::Release, Ordering::Acquire)
    }
}

/// A thread-safe cell which can be written to only once.
#[derive(Default, Debug)]
pub struct OnceBool {
    inner: OnceNonZeroUsize,
}

impl OnceBool {
    /// Creates a new empty cell.
    #[inline]
    pub const fn new() -> Self {
        Self { inner: OnceNonZeroUsize::new() }
    }

    /// Gets the underlying value.
    #[inline]
    pub fn get(&self) -> Option<bool> {
        self.inner.get().map(Self::from_usize)
    }

    /// Sets the contents of this cell to `value`.
    ///
    /// Returns `Ok(())` if the cell was empty and `Err(())` if it was
    /// full.
    #[inline]
    pub fn set(&self, value: bool) -> Result<(), ()> {
        self.inner.set(Self::to_usize(value))
    }

    /// Gets the contents of the cell, initializing it with `f` if the cell was
    /// empty.
    ///
    /// If several threads concurrently run `get_or_init`, more than one `f` can
    /// be called. However, all threads will return the same value, produced by
    /// some `f`.
    pub fn get_or_init<F>(&self, f: F) -> bool
    where
        F: FnOnce() -> bool,
    {
        Self::from_usize(self.inner.get_or_init(|| Self::to_usize(f())))
    }

    /// Gets the contents of the cell, initializing it with `f` if
    /// the cell was empty. If the cell was empty and `f` failed, an
    /// error is returned.
    ///
    /// If several threads concurrently run `get_or_init`, more than one `f` can
    /// be called. However, all threads will return the same value, produced by
    /// some `f`.
    pub fn get_or_try_init<F, E>(&self, f: F) -> Result<bool, E>
    where
        F: FnOnce() -> Result<bool, E>,
    {
        self.inner.get_or_try_init(|| f().map(Self::to_usize)).map(Self::from_usize)
    }

    #[inline]
    fn from_usize(value: NonZeroUsize) -> bool {
        value.get() == 1
    }

    #[inline]
    fn to_usize(value: bool) -> NonZeroUsize {
        unsafe { NonZeroUsize::new_unchecked(if value { 1 } else { 2 }) }
    }
}

/// A thread-safe cell which can be written to only once.
pub struct OnceRef<'a, T> {
    inner: AtomicPtr<T>,
    ghost: PhantomData<UnsafeCell<&'a T>>,
}

// TODO: Replace UnsafeCell with SyncUnsafeCell once stabilized
unsafe impl<'a, T: Sync> Sync for OnceRef<'a, T> {}

impl<'a, T> core::fmt::Debug for OnceRef<'a, T> {
    fn fmt(&self, f: &mut core::fmt::Formatter<'_>) -> core::fmt::Result {
        write!(f, "OnceRef({:?})", self.inner)
    }
}

impl<'a, T> Default for OnceRef<'a, T> {
    fn default() -> Self {
        Self::new()
    }
}

impl<'a, T> OnceRef<'a, T> {
    /// Creates a new empty cell.
    pub const fn new() -> Self {
        Self { inner: AtomicPtr::new(ptr::null_mut()), ghost: PhantomData }
    }

    /// Gets a reference to the underlying value.
    pub fn get(&self) -> Option<&'a T> {
        let ptr = self.inner.load(Ordering::Acquire);
        unsafe { ptr.as_ref() }
    }

    /// Sets the contents of this cell to `value`.
    ///
    /// Returns `Ok(())` if the cell was empty and `Err(value)` if it was
    /// full.
    pub fn set(&self, value: &'a T) -> Result<(), ()> {
        match self.compare_exchange(value) {
            Ok(_) => Ok(()),
            Err(_) => Err(()),
        }
    }

    /// Gets the contents of the cell, initializing it with `f` if the cell was
    /// empty.
    ///
    /// If several threads concurrently run `get_or_init`, more than one `f` can
    /// be called. However, all threads will return the same value, produced by
    /// some `f`.
    pub fn get_or_init<F>(&self, f: F) -> &'a T
    where
        F: FnOnce() -> &'a T,
    {
        enum Void {}
        match self.get_or_try_init(|| Ok::<&'a T, Void>(f())) {
            Ok(val) => val,
            Err(void) => match void {},
        }
    }

    /// Gets the contents of the cell, initializing it with `f` if
    /// the cell was empty. If the cell was empty and `f` failed, an
    /// error is returned.
    ///
    /// If several threads concurrently run `get_or_init`, more than one `f` can
    /// be called. However, all threads will return the same value, produced by
    /// some `f`.
    pub fn get_or_try_init<F, E>(&self, f: F) -> Result<&'a T, E>
    where
        F: FnOnce() -> Result<&'a T, E>,
    {
        match self.get() {
            Some(val) => Ok(val),
            None => self.init(f),
        }
    }

    #[cold]
    #[inline(never)]
    fn init<E>(&self, f: impl FnOnce() -> Result<&'a T, E>) -> Result<&'a T, E> {
        let mut value: &'a T = f()?;
        if let Err(old) = self.compare_exchange(value) {
            value = unsafe { &*old };
        }
        Ok(value)
    }

    #[inline(always)]
    fn compare_exchange(&self, value: &'a T) -> Result<(), *const T> {
        self.inner
            .compare_exchange(
                ptr::null_mut(),
                <*const T>::cast_mut(value),
                Ordering::Release,
                Ordering::Acquire,
            )
            .map(|_: *mut T| ())
            .map_err(<*mut T>::cast_const)
    }

    /// ```compile_fail
    /// use once_cell::race::OnceRef;
    ///
    /// let mut l = OnceRef::new();
    ///
    /// {
    ///     let y = 2;
    ///     let mut r = OnceRef::new();
    ///     r.set(&y).unwrap();
    ///     core::mem::swap(&mut l, &mut r);
    /// }
    ///
    /// // l now contains a dangling reference to y
    /// eprintln!("uaf: {}", l.get().unwrap());
    /// ```
    fn _dummy() {}
}

#[cfg(feature = "alloc")]
pub use self::once_box::OnceBox;

#[cfg(feature = "alloc")]
mod once_box {
    use super::atomic::{AtomicPtr, Ordering};
    use core::{marker::PhantomData, ptr};

    use alloc::boxed::Box;

    /// A thread-safe cell which can be written to only once.
    pub struct OnceBox<T> {
        inner: AtomicPtr<T>,
        ghost: PhantomData<Option<Box<T>>>,
    }

    impl<T> core::fmt::Debug for OnceBox<T> {
        fn fmt(&self, f: &mut core::fmt::Formatter<'_>) -> core::fmt::Result {
            write!(f, "OnceBox({:?})", self.inner.load(Ordering::Relaxed))
        }
    }

    impl<T> Default for OnceBox<T> {
        fn default() -> Self {
            Self::new()
        }
    }

    impl<T> Drop for OnceBox<T> {
        fn drop(&mut self) {
            let ptr = *self.inner.get_mut();
            if !ptr.is_null() {
                drop(unsafe { Box::from_raw(ptr) })
            }
        }
    }

    impl<T> OnceBox<T> {
        /// Creates a new empty cell.
        pub const fn new() -> Self {
            Self { inner: AtomicPtr::new(ptr::null_mut()), ghost: PhantomData }
        }

        /// Creates a new cell with the given value.
        pub fn with_value(value: Box<T>) -> Self {
            Self { inner: AtomicPtr::new(Box::into_raw(value)), ghost: PhantomData }
        }

        /// Gets a reference to the underlying value.
        pub fn get(&self) -> Option<&T> {
            let ptr = self.inner.load(Ordering::Acquire);
            if ptr.is_null() {
                return None;
            }
            Some(unsafe { &*ptr })
        }

        /// Sets the contents of this cell to `value`.
        ///
        /// Returns `Ok(())` if the cell was empty and `Err(value)` if it was
        /// full.
        pub fn set(&self, value: Box<T>) -> Result<(), Box<T>> {
            let ptr = Box::into_raw(value);
            let exchange = self.inner.compare_exchange(
                ptr::null_mut(),
                ptr,
                Ordering::Release,
                Ordering::Acquire,
            );
            if exchange.is_err() {
                let value = unsafe { Box::from_raw(ptr) };
                return Err(value);
            }
            Ok(())
        }

        /// Gets the contents of the cell, initializing it with `f` if the cell was
        /// empty.
        ///
        /// If several threads concurrently run `get_or_init`, more than one `f` can
        /// be called. However, all threads will return the same value, produced by
        /// some `f`.
        pub fn get_or_init<F>(&self, f: F) -> &T
        where
            F: FnOnce() -> Box<T>,
        {
            enum Void {}
            match self.get_or_try_init(|| Ok::<Box<T>, Void>(f())) {
                Ok(val) => val,
                Err(void) => match void {},
            }
        }

        /// Gets the contents of the cell, initializing it with `f` if
        /// the cell was empty. If the cell was empty and `f` failed, an
        /// error is returned.
        ///
        /// If several threads concurrently run `get_or_init`, more than one `f` can
        /// be called. However, all threads will return the same value, produced by
        /// some `f`.
        pub fn get_or_try_init<F, E>(&self, f: F) -> Result<&T, E>
        where
            F: FnOnce() -> Result<Box<T>, E>,
        {
            match self.get() {
                Some(val) => Ok(val),
                None => self.init(f)
            }
        }

        #[cold]
        #[inline(never)]
        fn init<E>(&self, f: impl FnOnce() -> Result<Box<T>, E>) -> Result<&T, E> {
            let val = f()?;
            let mut ptr = Box::into_raw(val);
            let exchange = self.inner.compare_exchange(
                ptr::null_mut(),
                ptr,
                Ordering::Release,
                Ordering::Acquire,
            );
            if let Err(old) = exchange {
                drop(unsafe { Box::from_raw(ptr) });
                ptr = old;
            }
            Ok(unsafe { &*ptr })
        }
    }

    unsafe impl<T: Sync + Send> Sync for OnceBox<T> {}

    impl<T: Clone> Clone for OnceBox<T> {
        fn clone(&self) -> Self {
            match self.get() {
                Some(value) => OnceBox::with_value(Box::new(value.clone())),
                None => OnceBox::new(),
            }
        }
    }

    /// ```compile_fail
    /// struct S(*mut ());
    /// unsafe impl Sync for S {}
    ///
    /// fn share<T: Sync>(_: &T) {}
    /// share(&once_cell::race::OnceBox::<S>::new());
    /// ```
    fn _dummy() {}
}
