//! # Overview
//!
//! `once_cell` provides two new cell-like types, [`unsync::OnceCell`] and
//! [`sync::OnceCell`]. A `OnceCell` might store arbitrary non-`Copy` types, can
//! be assigned to at most once and provides direct access to the stored
//! contents. The core API looks *roughly* like this (and there's much more
//! inside, read on!):
//!
//! ```rust,ignore
//! impl<T> OnceCell<T> {
//!     const fn new() -> OnceCell<T> { ... }
//!     fn set(&self, value: T) -> Result<(), T> { ... }
//!     fn get(&self) -> Option<&T> { ... }
//! }
//! ```
//!
//! Note that, like with [`RefCell`] and [`Mutex`], the `set` method requires
//! only a shared reference. Because of the single assignment restriction `get`
//! can return a `&T` instead of `Ref<T>` or `MutexGuard<T>`.
//!
//! The `sync` flavor is thread-safe (that is, implements the [`Sync`] trait),
//! while the `unsync` one is not.
//!
//! [`unsync::OnceCell`]: unsync/struct.OnceCell.html
//! [`sync::OnceCell`]: sync/struct.OnceCell.html
//! [`RefCell`]: https://doc.rust-lang.org/std/cell/struct.RefCell.html
//! [`Mutex`]: https://doc.rust-lang.org/std/sync/struct.Mutex.html
//! [`Sync`]: https://doc.rust-lang.org/std/marker/trait.Sync.html
//!
//! # Recipes
//!
//! `OnceCell` might be useful for a variety of patterns.
//!
//! ## Safe Initialization of Global Data
//!
//! ```rust
//! use std::{env, io};
//!
//! use once_cell::sync::OnceCell;
//!
//! #[derive(Debug)]
//! pub struct Logger {
//!     // ...
//! }
//! static INSTANCE: OnceCell<Logger> = OnceCell::new();
//!
//! impl Logger {
//!     pub fn global() -> &'static Logger {
//!         INSTANCE.get().expect("logger is not initialized")
//!     }
//!
//!     fn from_cli(args: env::Args) -> Result<Logger, std::io::Error> {
//!        // ...
//! #      Ok(Logger {})
//!     }
//! }
//!
//! fn main() {
//!     let logger = Logger::from_cli(env::args()).unwrap();
//!     INSTANCE.set(logger).unwrap();
//!     // use `Logger::global()` from now on
//! }
//! ```
//!
//! ## Lazy Initialized Global Data
//!
//! This is essentially the `lazy_static!` macro, but without a macro.
//!
//! ```rust
//! use std::{sync::Mutex, collections::HashMap};
//!
//! use once_cell::sync::OnceCell;
//!
//! fn global_data() -> &'static Mutex<HashMap<i32, String>> {
//!     static INSTANCE: OnceCell<Mutex<HashMap<i32, String>>> = OnceCell::new();
//!     INSTANCE.get_or_init(|| {
//!         let mut m = HashMap::new();
//!         m.insert(13, "Spica".to_string());
//!         m.insert(74, "Hoyten".to_string());
//!         Mutex::new(m)
//!     })
//! }
//! ```
//!
//! There are also the [`sync::Lazy`] and [`unsync::Lazy`] convenience types to
//! streamline this pattern:
//!
//! ```rust
//! use std::{sync::Mutex, collections::HashMap};
//! use once_cell::sync::Lazy;
//!
//! static GLOBAL_DATA: Lazy<Mutex<HashMap<i32, String>>> = Lazy::new(|| {
//!     let mut m = HashMap::new();
//!     m.insert(13, "Spica".to_string());
//!     m.insert(74, "Hoyten".to_string());
//!     Mutex::new(m)
//! });
//!
//! fn main() {
//!     println!("{:?}", GLOBAL_DATA.lock().unwrap());
//! }
//! ```
//!
//! Note that the variable that holds `Lazy` is declared as `static`, *not*
//! `const`. This is important: using `const` instead compiles, but works wrong.
//!
//! [`sync::Lazy`]: sync/struct.Lazy.html
//! [`unsync::Lazy`]: unsync/struct.Lazy.html
//!
//! ## General purpose lazy evaluation
//!
//! Unlike `lazy_static!`, `Lazy` works with local variables.
//!
//! ```rust
//! use once_cell::unsync::Lazy;
//!
//! fn main() {
//!     let ctx = vec![1, 2, 3];
//!     let thunk = Lazy::new(|| {
//!         ctx.iter().sum::<i32>()
//!     });
//!     assert_eq!(*thunk, 6);
//! }
//! ```
//!
//! If you need a lazy field in a struct, you probably should use `OnceCell`
//! directly, because that will allow you to access `self` during
//! initialization.
//!
//! ```rust
//! use std::{fs, path::PathBuf};
//!
//! use once_cell::unsync::OnceCell;
//!
//! struct Ctx {
//!     config_path: PathBuf,
//!     config: OnceCell<String>,
//! }
//!
//! impl Ctx {
//!     pub fn get_config(&self) -> Result<&str, std::io::Error> {
//!         let cfg = self.config.get_or_try_init(|| {
//!             fs::read_to_string(&self.config_path)
//!         })?;
//!         Ok(cfg.as_str())
//!     }
//! }
//! ```
//!
//! ## Lazily Compiled Regex
//!
//! This is a `regex!` macro which takes a string literal and returns an
//! *expression* that evaluates to a `&'static Regex`:
//!
//! ```
//! macro_rules! regex {
//!     ($re:literal $(,)?) => {{
//!         static RE: once_cell::sync::OnceCell<regex::Regex> = once_cell::sync::OnceCell::new();
//!         RE.get_or_init(|| regex::Regex::new($re).unwrap())
//!     }};
//! }
//! ```
//!
//! This macro can be useful to avoid the "compile regex on every loop
//! iteration" problem.
//!
//! ## Runtime `include_bytes!`
//!
//! The `include_bytes` macro is useful to include test resources, but it slows
//! down test compilation a lot. An alternative is to load the resources at
//! runtime:
//!
//! ```
//! use std::path::Path;
//!
//! use once_cell::sync::OnceCell;
//!
//! pub struct TestResource {
//!     path: &'static str,
//!     cell: OnceCell<Vec<u8>>,
//! }
//!
//! impl TestResource {
//!     pub const fn new(path: &'static str) -> TestResource {
//!         TestResource { path, cell: OnceCell::new() }
//!     }
//!     pub fn bytes(&self) -> &[u8] {
//!         self.cell.get_or_init(|| {
//!             let dir = std::env::var("CARGO_MANIFEST_DIR").unwrap();
//!             let path = Path::new(dir.as_str()).join(self.path);
//!             std::fs::read(&path).unwrap_or_else(|_err| {
//!                 panic!("failed to load test resource: {}", path.display())
//!             })
//!         }).as_slice()
//!     }
//! }
//!
//! static TEST_IMAGE: TestResource = TestResource::new("test_data/lena.png");
//!
//! #[test]
//! fn test_sobel_filter() {
//!     let rgb: &[u8] = TEST_IMAGE.bytes();
//!     // ...
//! # drop(rgb);
//! }
//! ```
//!
//! ## `lateinit`
//!
//! `LateInit` type for delayed initialization. It is reminiscent of Kotlin's
//! `lateinit` keyword and allows construction of cyclic data structures:
//!
//!
//! ```
//! use once_cell::sync::OnceCell;
//!
//! pub struct LateInit<T> { cell: OnceCell<T> }
//!
//! impl<T> LateInit<T> {
//!     pub fn init(&self, value: T) {
//!         assert!(self.cell.set(value).is_ok())
//!     }
//! }
//!
//! impl<T> Default for LateInit<T> {
//!     fn default() -> Self { LateInit { cell: OnceCell::default() } }
//! }
//!
//! impl<T> std::ops::Deref for LateInit<T> {
//!     type Target = T;
//!     fn deref(&self) -> &T {
//!         self.cell.get().unwrap()
//!     }
//! }
//!
//! #[derive(Default)]
//! struct A<'a> {
//!     b: LateInit<&'a B<'a>>,
//! }
//!
//! #[derive(Default)]
//! struct B<'a> {
//!     a: LateInit<&'a A<'a>>
//! }
//!
//!
//! fn build_cycle() {
//!     let a = A::default();
//!     let b = B::default();
//!     a.b.init(&b);
//!     b.a.init(&a);
//!
//!     let _a = &a.b.a.b.a;
//! }
//! ```
//!
//! # Comparison with std
//!
//! |`!Sync` types         | Access Mode            | Drawbacks                                     |
//! |----------------------|------------------------|-----------------------------------------------|
//! |`Cell<T>`             | `T`                    | requires `T: Copy` for `get`                  |
//! |`RefCell<T>`          | `RefMut<T>` / `Ref<T>` | may panic at runtime                          |
//! |`unsync::OnceCell<T>` | `&T`                   | assignable only once                          |
//!
//! |`Sync` types          | Access Mode            | Drawbacks                                     |
//! |----------------------|------------------------|-----------------------------------------------|
//! |`AtomicT`             | `T`                    | works only with certain `Copy` types          |
//! |`Mutex<T>`            | `MutexGuard<T>`        | may deadlock at runtime, may block the thread |
//! |`sync::OnceCell<T>`   | `&T`                   | assignable only once, may block the thread    |
//!
//! Technically, calling `get_or_init` will also cause a panic or a deadlock if
//! it recursively calls itself. However, because the assignment can happen only
//! once, such cases should be more rare than equivalents with `RefCell` and
//! `Mutex`.
//!
//! # Minimum Supported `rustc` Version
//!
//! If only the `std`, `alloc`, or `race` features are enabled, MSRV will be
//! updated conservatively, supporting at least latest 8 versions of the compiler.
//! When using other features, like `parking_lot`, MSRV might be updated more
//! frequently, up to the latest stable. In both cases, increasing MSRV is *not*
//! considered a semver-breaking change and requires only a minor version bump.
//!
//! # Implementation details
//!
//! The implementation is based on the
//! [`lazy_static`](https://github.com/rust-lang-nursery/lazy-static.rs/) and
//! [`lazy_cell`](https://github.com/indiv0/lazycell/) crates and
//! [`std::sync::Once`]. In some sense, `once_cell` just streamlines and unifies
//! those APIs.
//!
//! To implement a sync flavor of `OnceCell`, this crates uses either a custom
//! re-implementation of `std::sync::Once` or `parking_lot::Mutex`. This is
//! controlled by the `parking_lot` feature (disabled by default). Performance
//! is the same for both cases, but the `parking_lot` based `OnceCell<T>` is
//! smaller by up to 16 bytes.
//!
//! This crate uses `unsafe`.
//!
//! [`std::sync::Once`]: https://doc.rust-lang.org/std/sync/struct.Once.html
//!
//! # F.A.Q.
//!
//! **Should I use the sync or unsync flavor?**
//!
//! Because Rust compiler checks thread safety for you, it's impossible to
//! accidentally use `unsync` where `sync` is required. So, use `unsync` in
//! single-threaded code and `sync` in multi-threaded. It's easy to switch
//! between the two if code becomes multi-threaded later.
//!
//! At the moment, `unsync` has an additional benefit that reentrant
//! initialization causes a panic, which might be easier to debug than a
//! deadlock.
//!
//! **Does this crate support async?**
//!
//! No, but you can use
//! [`async_once_cell`](https://crates.io/crates/async_once_cell) instead.
//!
//! **Does this crate support `no_std`?**
//!
//! Yes, but with caveats. `OnceCell` is a synchronization primitive which
//! _semantically_ relies on blocking. `OnceCell` guarantees that at most one
//! `f` will be called to compute the value. If two threads of execution call
//! `get_or_init` concurrently, one of them has to wait.
//!
//! Waiting fundamentally requires OS support. Execution environment needs to
//! understand who waits on whom to prevent deadlocks due to priority inversion.
//! You _could_ make code to compile by blindly using pure spinlocks, but the
//! runtime behavior would be subtly wrong.
//!
//! Given these constraints, `once_cell` provides the following options:
//!
//! - The `race` module provides similar, but distinct synchronization primitive
//!   which is compatible with `no_std`. With `race`, the `f` function can be
//!   called multiple times by different threads, but only one thread will win
//!   to install the value.
//! - `critical-section` feature (with a `-`, not `_`) uses `critical_section`
//!   to implement blocking.
//!
//! **Can I bring my own mutex?**
//!
//! There is [generic_once_cell](https://crates.io/crates/generic_once_cell) to
//! allow just that.
//!
//! **Should I use `std::cell::OnceCell`, `once_cell`, or `lazy_static`?**
//!
//! If you can use `std` version (your MSRV is at least 1.70, and you don't need
//! extra features `once_cell` provides), use `std`. Otherwise, use `once_cell`.
//! Don't use `lazy_static`.
//!
//! # Related crates
//!
//! * Most of this crate's functionality is available in `std` starting with
//!   Rust 1.70. See `std::cell::OnceCell` and `std::sync::OnceLock`.
//! * [double-checked-cell](https://github.com/niklasf/double-checked-cell)
//! * [lazy-init](https://crates.io/crates/lazy-init)
//! * [lazycell](https://crates.io/crates/lazycell)
//! * [mitochondria](https://crates.io/crates/mitochondria)
//! * [lazy_static](https://crates.io/crates/lazy_static)
//! * [async_once_cell](https://crates.io/crates/async_once_cell)
//! * [generic_once_cell](https://crates.io/crates/generic_once_cell) (bring
//!   your own mutex)

#![cfg_attr(not(feature = "std"), no_std)]

#[cfg(feature = "alloc")]
extern crate alloc;

#[cfg(all(feature = "critical-section", not(feature = "std")))]
#[path = "imp_cs.rs"]
mod imp;

#[cfg(all(feature = "std", feature = "parking_lot"))]
#[path = "imp_pl.rs"]
mod imp;

#[cfg(all(feature = "std", not(feature = "parking_lot")))]
#[path = "imp_std.rs"]
mod imp;

/// Single-threaded version of `OnceCell`.
pub mod unsync {
    use core::{
        cell::{Cell, UnsafeCell},
        fmt, mem,
        ops::{Deref, DerefMut},
        panic::{RefUnwindSafe, UnwindSafe},
    };

    /// A cell which can be written to only once. It is not thread safe.
    ///
    /// Unlike [`std::cell::RefCell`], a `OnceCell` provides simple `&`
    /// references to the contents.
    ///
    /// [`std::cell::RefCell`]: https://doc.rust-lang.org/std/cell/struct.RefCell.html
    ///
    /// # Example
    /// ```
    /// use once_cell::unsync::OnceCell;
    ///
    /// let cell = OnceCell::new();
    /// assert!(cell.get().is_none());
    ///
    /// let value: &String = cell.get_or_init(|| {
    ///     "Hello, World!".to_string()
    /// });
    /// assert_eq!(value, "Hello, World!");
    /// assert!(cell.get().is_some());
    /// ```
    pub struct OnceCell<T> {
        // Invariant: written to at most once.
        inner: UnsafeCell<Option<T>>,
    }

    // Similarly to a `Sync` bound on `sync::OnceCell`, we can use
    // `&unsync::OnceCell` to sneak a `T` through `catch_unwind`,
    // by initializing the cell in closure and extracting the value in the
    // `Drop`.
    impl<T: RefUnwindSafe + UnwindSafe> RefUnwindSafe for OnceCell<T> {}
    impl<T: UnwindSafe> UnwindSafe for OnceCell<T> {}

    impl<T> Default for OnceCell<T> {
        fn default() -> Self {
            Self::new()
        }
    }

    impl<T: fmt::Debug> fmt::Debug for OnceCell<T> {
        fn fmt(&self, f: &mut fmt::Formatter) -> fmt::Result {
            match self.get() {
                Some(v) => f.debug_tuple("OnceCell").field(v).finish(),
                None => f.write_str("OnceCell(Uninit)"),
            }
        }
    }

    impl<T: Clone> Clone for OnceCell<T> {
        fn clone(&self) -> OnceCell<T> {
            match self.get() {
                Some(value) => OnceCell::with_value(value.clone()),
                None => OnceCell::new(),
            }
        }

        fn clone_from(&mut self, source: &Self) {
            match (self.get_mut(), source.get()) {
                (Some(this), Some(source)) => this.clone_from(source),
                _ => *self = source.clone(),
            }
        }
    }

    impl<T: PartialEq> PartialEq for OnceCell<T> {
        fn eq(&self, other: &Self) -> bool {
            self.get() == other.get()
        }
    }

    impl<T: Eq> Eq for OnceCell<T> {}

    impl<T> From<T> for OnceCell<T> {
        fn from(value: T) -> Self {
            OnceCell::with_value(value)
        }
    }

    impl<T> OnceCell<T> {
        /// Creates a new empty cell.
        pub const fn new() -> OnceCell<T> {
            OnceCell { inner: UnsafeCell::new(None) }
        }

        /// Creates a new initialized cell.
        pub const fn with_value(value: T) -> OnceCell<T> {
            OnceCell { inner: UnsafeCell::new(Some(value)) }
        }

        /// Gets a reference to the underlying value.
        ///
        /// Returns `None` if the cell is empty.
        #[inline]
        pub fn get(&self) -> Option<&T> {
            // Safe due to `inner`'s invariant of being written to at most once.
            // Had multiple writes to `inner` been allowed, a reference to the
            // value we return now would become dangling by a write of a
            // different value later.
            unsafe { &*self.inner.get() }.as_ref()
        }

        /// Gets a mutable reference to the underlying value.
        ///
        /// Returns `None` if the cell is empty.
        ///
        /// This method is allowed to violate the invariant of writing to a `OnceCell`
        /// at most once because it requires `&mut` access to `self`. As with all
        /// interior mutability, `&mut` access permits arbitrary modification:
        ///
        /// ```
        /// use once_cell::unsync::OnceCell;
        ///
        /// let mut cell: OnceCell<u32> = OnceCell::new();
        /// cell.set(92).unwrap();
        /// *cell.get_mut().unwrap() = 93;
        /// assert_eq!(cell.get(), Some(&93));
        /// ```
        #[inline]
        pub fn get_mut(&mut self) -> Option<&mut T> {
            // Safe because we have unique access
            unsafe { &mut *self.inner.get() }.as_mut()
        }

        /// Sets the contents of this cell to `value`.
        ///
        /// Returns `Ok(())` if the cell was empty and `Err(value)` if it was
        /// full.
        ///
        /// # Example
        /// ```
        /// use once_cell::unsync::OnceCell;
        ///
        /// let cell = OnceCell::new();
        /// assert!(cell.get().is_none());
        ///
        /// assert_eq!(cell.set(92), Ok(()));
        /// assert_eq!(cell.set(62), Err(62));
        ///
        /// assert!(cell.get().is_some());
        /// ```
        pub fn set(&self, value: T) -> Result<(), T> {
            match self.try_insert(value) {
                Ok(_) => Ok(()),
                Err((_, value)) => Err(value),
            }
        }

        /// Like [`set`](Self::set), but also returns a reference to the final cell value.
        ///
        /// # Example
        /// ```
        /// use once_cell::unsync::OnceCell;
        ///
        /// let cell = OnceCell::new();
        /// assert!(cell.get().is_none());
        ///
        /// assert_eq!(cell.try_insert(92), Ok(&92));
        /// assert_eq!(cell.try_insert(62), Err((&92, 62)));
        ///
        /// assert!(cell.get().is_some());
        /// ```
        pub fn try_insert(&self, value: T) -> Result<&T, (&T, T)> {
            if let Some(old) = self.get() {
                return Err((old, value));
            }

            let slot = unsafe { &mut *self.inner.get() };
            // This is the only place where we set the slot, no races
            // due to reentrancy/concurrency are possible, and we've
            // checked that slot is currently `None`, so this write
            // maintains the `inner`'s invariant.
            *slot = Some(value);
            Ok(unsafe { slot.as_ref().unwrap_unchecked() })
        }

        /// Gets the contents of the cell, initializing it with `f`
        /// if the cell was empty.
        ///
        /// # Panics
        ///
        /// If `f` panics, the panic is propagated to the caller, and the cell
        /// remains uninitialized.
        ///
        /// It is an error to reentrantly initialize the cell from `f`. Doing
        /// so results in a panic.
        ///
        /// # Example
        /// ```
        /// use once_cell::unsync::OnceCell;
        ///
        /// let cell = OnceCell::new();
        /// let value = cell.get_or_init(|| 92);
        /// assert_eq!(value, &92);
        /// let value = cell.get_or_init(|| unreachable!());
        /// assert_eq!(value, &92);
        /// ```
        pub fn get_or_init<F>(&self, f: F) -> &T
        where
            F: FnOnce() -> T,
        {
            enum Void {}
            match self.get_or_try_init(|| Ok::<T, Void>(f())) {
                Ok(val) => val,
                Err(void) => match void {},
            }
        }

        /// Gets the contents of the cell, initializing it with `f` if
        /// the cell was empty. If the cell was empty and `f` failed, an
        /// error is returned.
        ///
        /// # Panics
        ///
        /// If `f` panics, the panic is propagated to the caller, and the cell
        /// remains uninitialized.
        ///
        /// It is an error to reentrantly initialize the cell from `f`. Doing
        /// so results in a panic.
        ///
        /// # Example
        /// ```
        /// use once_cell::unsync::OnceCell;
        ///
        /// let cell = OnceCell::new();
        /// assert_eq!(cell.get_or_try_init(|| Err(())), Err(()));
        /// assert!(cell.get().is_none());
        /// let value = cell.get_or_try_init(|| -> Result<i32, ()> {
        ///     Ok(92)
        /// });
        /// assert_eq!(value, Ok(&92));
        /// assert_eq!(cell.get(), Some(&92))
        /// ```
        pub fn get_or_try_init<F, E>(&self, f: F) -> Result<&T, E>
        where
            F: FnOnce() -> Result<T, E>,
        {
            if let Some(val) = self.get() {
                return Ok(val);
            }
            let val = f()?;
            // Note that *some* forms of reentrant initialization might lead to
            // UB (see `reentrant_init` test). I believe that just removing this
            // `assert`, while keeping `set/get` would be sound, but it seems
            // better to panic, rather than to silently use an old value.
            assert!(self.set(val).is_ok(), "reentrant init");
            Ok(unsafe { self.get().unwrap_unchecked() })
        }

        /// Takes the value out of this `OnceCell`, moving it back to an uninitialized state.
        ///
        /// Has no effect and returns `None` if the `OnceCell` hasn't been initialized.
        ///
        /// # Examples
        ///
        /// ```
        /// use once_cell::unsync::OnceCell;
        ///
        /// let mut cell: OnceCell<String> = OnceCell::new();
        /// assert_eq!(cell.take(), None);
        ///
        /// let mut cell = OnceCell::new();
        /// cell.set("hello".to_string()).unwrap();
        /// assert_eq!(cell.take(), Some("hello".to_string()));
        /// assert_eq!(cell.get(), None);
        /// ```
        ///
        /// This method is allowed to violate the invariant of writing to a `OnceCell`
        /// at most once because it requires `&mut` access to `self`. As with all
        /// interior mutability, `&mut` access permits arbitrary modification:
        ///
        /// ```
        /// use once_cell::unsync::OnceCell;
        ///
        /// let mut cell: OnceCell<u32> = OnceCell::new();
        /// cell.set(92).unwrap();
        /// cell = OnceCell::new();
        /// ```
        pub fn take(&mut self) -> Option<T> {
            mem::take(self).into_inner()
        }

        /// Consumes the `OnceCell`, returning the wrapped value.
        ///
        /// Returns `None` if the cell was empty.
        ///
        /// # Examples
        ///
        /// ```
        /// use once_cell::unsync::OnceCell;
        ///
        /// let cell: OnceCell<String> = OnceCell::new();
        /// assert_eq!(cell.into_inner(), None);
        ///
        /// let cell = OnceCell::new();
        /// cell.set("hello".to_string()).unwrap();
        /// assert_eq!(cell.into_inner(), Some("hello".to_string()));
        /// ```
        pub fn into_inner(self) -> Option<T> {
            // Because `into_inner` takes `self` by value, the compiler statically verifies
            // that it is not currently borrowed. So it is safe to move out `Option<T>`.
            self.inner.into_inner()
        }
    }

    /// A value which is initialized on the first access.
    ///
    /// # Example
    /// ```
    /// use once_cell::unsync::Lazy;
    ///
    /// let lazy: Lazy<i32> = Lazy::new(|| {
    ///     println!("initializing");
    ///     92
    /// });
    /// println!("ready");
    /// println!("{}", *lazy);
    /// println!("{}", *lazy);
    ///
    /// // Prints:
    /// //   ready
    /// //   initializing
    /// //   92
    /// //   92
    /// ```
    pub struct Lazy<T, F = fn() -> T> {
        cell: OnceCell<T>,
        init: Cell<Option<F>>,
    }

    impl<T, F: RefUnwindSafe> RefUnwindSafe for Lazy<T, F> where OnceCell<T>: RefUnwindSafe {}

    impl<T: fmt::Debug, F> fmt::Debug for Lazy<T, F> {
        fn fmt(&self, f: &mut fmt::Formatter) -> fmt::Result {
            f.debug_struct("Lazy").field("cell", &self.cell).field("init", &"..").finish()
        }
    }

    impl<T, F> Lazy<T, F> {
        /// Creates a new lazy value with the given initializing function.
        ///
        /// # Example
        /// ```
        /// # fn main() {
        /// use once_cell::unsync::Lazy;
        ///
        /// let hello = "Hello, World!".to_string();
        ///
        /// let lazy = Lazy::new(|| hello.to_uppercase());
        ///
        /// assert_eq!(&*lazy, "HELLO, WORLD!");
        /// # }
        /// ```
        pub const fn new(init: F) -> Lazy<T, F> {
            Lazy { cell: OnceCell::new(), init: Cell::new(Some(init)) }
        }

        /// Consumes this `Lazy` returning the stored value.
        ///
        /// Returns `Ok(value)` if `Lazy` is initialized and `Err(f)` otherwise.
        pub fn into_value(this: Lazy<T, F>) -> Result<T, F> {
            let cell = this.cell;
            let init = this.init;
            cell.into_inner().ok_or_else(|| {
                init.take().unwrap_or_else(|| panic!("Lazy instance has previously been poisoned"))
            })
        }
    }

    impl<T, F: FnOnce() -> T> Lazy<T, F> {
        /// Forces the evaluation of this lazy value and returns a reference to
        /// the result.
        ///
        /// This is equivalent to the `Deref` impl, but is explicit.
        ///
        /// # Example
        /// ```
        /// use once_cell::unsync::Lazy;
        ///
        /// let lazy = Lazy::new(|| 92);
        ///
        /// assert_eq!(Lazy::force(&lazy), &92);
        /// assert_eq!(&*lazy, &92);
        /// ```
        pub fn force(this: &Lazy<T, F>) -> &T {
            this.cell.get_or_init(|| match this.init.take() {
                Some(f) => f(),
                None => panic!("Lazy instance has previously been poisoned"),
            })
        }

        /// Forces the evaluation of this lazy value and returns a mutable reference to
        /// the result.
        ///
        /// This is equivalent to the `DerefMut` impl, but is explicit.
        ///
        /// # Example
        /// ```
        /// use once_cell::unsync::Lazy;
        ///
        /// let mut lazy = Lazy::new(|| 92);
        ///
        /// assert_eq!(Lazy::force_mut(&mut lazy), &92);
        /// assert_eq!(*lazy, 92);
        /// ```
        pub fn force_mut(this: &mut Lazy<T, F>) -> &mut T {
            if this.cell.get_mut().is_none() {
                let value = match this.init.get_mut().take() {
                    Some(f) => f(),
                    None => panic!("Lazy instance has previously been poisoned"),
                };
                this.cell = OnceCell::with_value(value);
            }
            this.cell.get_mut().unwrap_or_else(|| unreachable!())
        }

        /// Gets the reference to the result of this lazy value if
        /// it was initialized, otherwise returns `None`.
        ///
        /// # Example
        /// ```
        /// use once_cell::unsync::Lazy;
        ///
        /// let lazy = Lazy::new(|| 92);
        ///
        /// assert_eq!(Lazy::get(&lazy), None);
        /// assert_eq!(&*lazy, &92);
        /// assert_eq!(Lazy::get(&lazy), Some(&92));
        /// ```
        pub fn get(this: &Lazy<T, F>) -> Option<&T> {
            this.cell.get()
        }

        /// Gets the mutable reference to the result of this lazy value if
        /// it was initialized, otherwise returns `None`.
        ///
        /// # Example
        /// ```
        /// use once_cell::unsync::Lazy;
        ///
        /// let mut lazy = Lazy::new(|| 92);
        ///
        /// assert_eq!(Lazy::get_mut(&mut lazy), None);
        /// assert_eq!(*lazy, 92);
        /// assert_eq!(Lazy::get_mut(&mut lazy), Some(&mut 92));
        /// ```
        pub fn get_mut(this: &mut Lazy<T, F>) -> Option<&mut T> {
            this.cell.get_mut()
        }
    }

    impl<T, F: FnOnce() -> T> Deref for Lazy<T, F> {
        type Target = T;
        fn deref(&self) -> &T {
            Lazy::force(self)
        }
    }

    impl<T, F: FnOnce() -> T> DerefMut for Lazy<T, F> {
        fn deref_mut(&mut self) -> &mut T {
            Lazy::force_mut(self)
        }
    }

    impl<T: Default> Default for Lazy<T> {
        /// Creates a new lazy value using `Default` as the initializing function.
        fn default() -> Lazy<T> {
            Lazy::new(T::default)
        }
    }
}

/// Thread-safe, blocking version of `OnceCell`.
#[cfg(any(feature = "std", feature = "critical-section"))]
pub mod sync {
    use core::{
        cell::Cell,
        fmt, mem,
        ops::{Deref, DerefMut},
        panic::RefUnwindSafe,
    };

    use super::imp::OnceCell as Imp;

    /// A thread-safe cell which can be written to only once.
    ///
    /// `OnceCell` provides `&` references to the contents without RAII guards.
    ///
    /// Reading a non-`None` value out of `OnceCell` establishes a
    /// happens-before relationship with a corresponding write. For example, if
    /// thread A initializes the cell with `get_or_init(f)`, and thread B
    /// subsequently reads the result of this call, B also observes all the side
    /// effects of `f`.
    ///
    /// # Example
    /// ```
    /// use once_cell::sync::OnceCell;
    ///
    /// static CELL: OnceCell<String> = OnceCell::new();
    /// assert!(CELL.get().is_none());
    ///
    /// std::thread::spawn(|| {
    ///     let value: &String = CELL.get_or_init(|| {
    ///         "Hello, World!".to_string()
    ///     });
    ///     assert_eq!(value, "Hello, World!");
    /// }).join().unwrap();
    ///
    /// let value: Option<&String> = CELL.get();
    /// assert!(value.is_some());
    /// assert_eq!(value.unwrap().as_str(), "Hello, World!");
    /// ```
    pub struct OnceCell<T>(Imp<T>);

    impl<T> Default for OnceCell<T> {
        fn default() -> OnceCell<T> {
            OnceCell::new()
        }
    }

    impl<T: fmt::Debug> fmt::Debug for OnceCell<T> {
        fn fmt(&self, f: &mut fmt::Formatter) -> fmt::Result {
            match self.get() {
                Some(v) => f.debug_tuple("OnceCell").field(v).finish(),
                None => f.write_str("OnceCell(Uninit)"),
            }
        }
    }

    impl<T: Clone> Clone for OnceCell<T> {
        fn clone(&self) -> OnceCell<T> {
            match self.get() {
                Some(value) => Self::with_value(value.clone()),
                None => Self::new(),
            }
        }

        fn clone_from(&mut self, source: &Self) {
            match (self.get_mut(), source.get()) {
                (Some(this), Some(source)) => this.clone_from(source),
                _ => *self = source.clone(),
            }
        }
    }

    impl<T> From<T> for OnceCell<T> {
        fn from(value: T) -> Self {
            Self::with_value(value)
        }
    }

    impl<T: PartialEq> PartialEq for OnceCell<T> {
        fn eq(&self, other: &OnceCell<T>) -> bool {
            self.get() == other.get()
        }
    }

    impl<T: Eq> Eq for OnceCell<T> {}

    impl<T> OnceCell<T> {
        /// Creates a new empty cell.
        pub const fn new() -> OnceCell<T> {
            OnceCell(Imp::new())
        }

        /// Creates a new initialized cell.
        pub const fn with_value(value: T) -> OnceCell<T> {
            OnceCell(Imp::with_value(value))
        }

        /// Gets the reference to the underlying value.
        ///
        /// Returns `None` if the cell is empty, or being initialized. This
        /// method never blocks.
        pub fn get(&self) -> Option<&T> {
            self.verif_point();
            self.get_noyield()
        }

        /// s4 verification harness: a scheduling point before every access to a cell that is not yet
        /// initialised (where check-then-act slips on lazily built globals live). No-op outside the harness.
        #[inline]
        fn verif_point(&self) {
            if !self.0.is_initialized() {
                vsched::oncecell_point();
            }
        }

        fn get_noyield(&self) -> Option<&T> {
            if self.0.is_initialized() {
                // Safe b/c value is initialized.
                Some(unsafe { self.get_unchecked() })
            } else {
                None
            }
        }

        /// Gets the reference to the underlying value, blocking the current
        /// thread until it is set.
        ///
        /// ```
        /// use once_cell::sync::OnceCell;
        ///
        /// let mut cell = std::sync::Arc::new(OnceCell::new());
        /// let t = std::thread::spawn({
        ///     let cell = std::sync::Arc::clone(&cell);
        ///     move || cell.set(92).unwrap()
        /// });
        ///
        /// // Returns immediately, but might return None.
        /// let _value_or_none = cell.get();
        ///
        /// // Will return 92, but might block until the other thread does `.set`.
        /// let value: &u32 = cell.wait();
        /// assert_eq!(*value, 92);
        /// t.join().unwrap();
        /// ```
        #[cfg(feature = "std")]
        pub fn wait(&self) -> &T {
            if !self.0.is_initialized() {
                self.0.wait()
            }
            debug_assert!(self.0.is_initialized());
            // Safe b/c of the wait call above and the fact that we didn't
            // relinquish our borrow.
            unsafe { self.get_unchecked() }
        }

        /// Gets the mutable reference to the underlying value.
        ///
        /// Returns `None` if the cell is empty.
        ///
        /// This method is allowed to violate the invariant of writing to a `OnceCell`
        /// at most once because it requires `&mut` access to `self`. As with all
        /// interior mutability, `&mut` access permits arbitrary modification:
        ///
        /// ```
        /// use once_cell::sync::OnceCell;
        ///
        /// let mut cell: OnceCell<u32> = OnceCell::new();
        /// cell.set(92).unwrap();
        /// cell = OnceCell::new();
        /// ```
        #[inline]
        pub fn get_mut(&mut self) -> Option<&mut T> {
            self.0.get_mut()
        }

        /// Get the reference to the underlying value, without checking if the
        /// cell is initialized.
        ///
        /// # Safety
        ///
        /// Caller must ensure that the cell is in initialized state, and that
        /// the contents are acquired by (synchronized to) this thread.
        #[inline]
        pub unsafe fn get_unchecked(&self) -> &T {
            self.0.get_unchecked()
        }

        /// Sets the contents of this cell to `value`.
        ///
        /// Returns `Ok(())` if the cell was empty and `Err(value)` if it was
        /// full.
        ///
        /// # Example
        ///
        /// ```
        /// use once_cell::sync::OnceCell;
        ///
        /// static CELL: OnceCell<i32> = OnceCell::new();
        ///
        /// fn main() {
        ///     assert!(CELL.get().is_none());
        ///
        ///     std::thread::spawn(|| {
        ///         assert_eq!(CELL.set(92), Ok(()));
        ///     }).join().unwrap();
        ///
        ///     assert_eq!(CELL.set(62), Err(62));
        ///     assert_eq!(CELL.get(), Some(&92));
        /// }
        /// ```
        pub fn set(&self, value: T) -> Result<(), T> {
            match self.try_insert(value) {
                Ok(_) => Ok(()),
                Err((_, value)) => Err(value),
            }
        }

        /// Like [`set`](Self::set), but also returns a reference to the final cell value.
        ///
        /// # Example
        ///
        /// ```
        /// use once_cell::unsync::OnceCell;
        ///
        /// let cell = OnceCell::new();
        /// assert!(cell.get().is_none());
        ///
        /// assert_eq!(cell.try_insert(92), Ok(&92));
        /// assert_eq!(cell.try_insert(62), Err((&92, 62)));
        ///
        /// assert!(cell.get().is_some());
        /// ```
        pub fn try_insert(&self, value: T) -> Result<&T, (&T, T)> {
            let mut value = Some(value);
            let res = self.get_or_init(|| unsafe { value.take().unwrap_unchecked() });
            match value {
                None => Ok(res),
                Some(value) => Err((res, value)),
            }
        }

        /// Gets the contents of the cell, initializing it with `f` if the cell
        /// was empty.
        ///
        /// Many threads may call `get_or_init` concurrently with different
        /// initializing functions, but it is guaranteed that only one function
        /// will be executed.
        ///
        /// # Panics
        ///
        /// If `f` panics, the panic is propagated to the caller, and the cell
        /// remains uninitialized.
        ///
        /// It is an error to reentrantly initialize the cell from `f`. The
        /// exact outcome is unspecified. Current implementation deadlocks, but
        /// this may be changed to a panic in the future.
        ///
        /// # Example
        /// ```
        /// use once_cell::sync::OnceCell;
        ///
        /// let cell = OnceCell::new();
        /// let value = cell.get_or_init(|| 92);
        /// assert_eq!(value, &92);
        /// let value = cell.get_or_init(|| unreachable!());
        /// assert_eq!(value, &92);
        /// ```
        pub fn get_or_init<F>(&self, f: F) -> &T
        where
            F: FnOnce() -> T,
        {
            enum Void {}
            match self.get_or_try_init(|| Ok::<T, Void>(f())) {
                Ok(val) => val,
                Err(void) => match void {},
            }
        }

        /// Gets the contents of the cell, initializing it with `f` if
        /// the cell was empty. If the cell was empty and `f` failed, an
        /// error is returned.
        ///
        /// # Panics
        ///
        /// If `f` panics, the panic is propagated to the caller, and
        /// the cell remains uninitialized.
        ///
        /// It is an error to reentrantly initialize the cell from `f`.
        /// The exact outcome is unspecified. Current implementation
        /// deadlocks, but this may be changed to a panic in the future.
        ///
        /// # Example
        /// ```
        /// use once_cell::sync::OnceCell;
        ///
        /// let cell = OnceCell::new();
        /// assert_eq!(cell.get_or_try_init(|| Err(())), Err(()));
        /// assert!(cell.get().is_none());
        /// let value = cell.get_or_try_init(|| -> Result<i32, ()> {
        ///     Ok(92)
        /// });
        /// assert_eq!(value, Ok(&92));
        /// assert_eq!(cell.get(), Some(&92))
        /// ```
        pub fn get_or_try_init<F, E>(&self, f: F) -> Result<&T, E>
        where
            F: FnOnce() -> Result<T, E>,
        {
            self.verif_point();
            // Fast path check
            if let Some(value) = self.get_noyield() {
                return Ok(value);
            }

            self.0.initialize(f)?;

            // Safe b/c value is initialized.
            debug_assert!(self.0.is_initialized());
            Ok(unsafe { self.get_unchecked() })
        }

        /// Takes the value out of this `OnceCell`, moving it back to an uninitialized state.
        ///
        /// Has no effect and returns `None` if the `OnceCell` hasn't been initialized.
        ///
        /// # Examples
        ///
        /// ```
        /// use once_cell::sync::OnceCell;
        ///
        /// let mut cell: OnceCell<String> = OnceCell::new();
        /// assert_eq!(cell.take(), None);
        ///
        /// let mut cell = OnceCell::new();
        /// cell.set("hello".to_string()).unwrap();
        /// assert_eq!(cell.take(), Some("hello".to_string()));
        /// assert_eq!(cell.get(), None);
        /// ```
        ///
        /// This method is allowed to violate the invariant of writing to a `OnceCell`
        /// at most once because it requires `&mut` access to `self`. As with all
        /// interior mutability, `&mut` access permits arbitrary modification:
        ///
        /// ```
        /// use once_cell::sync::OnceCell;
        ///
        /// let mut cell: OnceCell<u32> = OnceCell::new();
        /// cell.set(92).unwrap();
        /// cell = OnceCell::new();
        /// ```
        pub fn take(&mut self) -> Option<T> {
            mem::take(self).into_inner()
        }

        /// Consumes the `OnceCell`, returning the wrapped value. Returns
        /// `None` if the cell was empty.
        ///
        /// # Examples
        ///
        /// ```
        /// use once_cell::sync::OnceCell;
        ///
        /// let cell: OnceCell<String> = OnceCell::new();
        /// assert_eq!(cell.into_inner(), None);
        ///
        /// let cell = OnceCell::new();
        /// cell.set("hello".to_string()).unwrap();
        /// assert_eq!(cell.into_inner(), Some("hello".to_string()));
        /// ```
        #[inline]
        pub fn into_inner(self) -> Option<T> {
            self.0.into_inner()
        }
    }

    /// A value which is initialized on the first access.
    ///
    /// This type is thread-safe and can be used in statics.
    ///
    /// # Example
    ///
    /// ```
    /// use std::collections::HashMap;
    ///
    /// use once_cell::sync::Lazy;
    ///
    /// static HASHMAP: Lazy<HashMap<i32, String>> = Lazy::new(|| {
    ///     println!("initializing");
    ///     let mut m = HashMap::new();
    ///     m.insert(13, "Spica".to_string());
    ///     m.insert(74, "Hoyten".to_string());
    ///     m
    /// });
    ///
    /// fn main() {
    ///     println!("ready");
    ///     std::thread::spawn(|| {
    ///         println!("{:?}", HASHMAP.get(&13));
    ///     }).join().unwrap();
    ///     println!("{:?}", HASHMAP.get(&74));
    ///
    ///     // Prints:
    ///     //   ready
    ///     //   initializing
    ///     //   Some("Spica")
    ///     //   Some("Hoyten")
    /// }
    /// ```
    pub struct Lazy<T, F = fn() -> T> {
        cell: OnceCell<T>,
        init: Cell<Option<F>>,
    }

    impl<T: fmt::Debug, F> fmt::Debug for Lazy<T, F> {
        fn fmt(&self, f: &mut fmt::Formatter) -> fmt::Result {
            f.debug_struct("Lazy").field("cell", &self.cell).field("init", &"..").finish()
        }
    }

    // We never create a `&F` from a `&Lazy<T, F>` so it is fine to not impl
    // `Sync` for `F`. We do create a `&mut Option<F>` in `force`, but this is
    // properly synchronized, so it only happens once so it also does not
    // contribute to this impl.
    unsafe impl<T, F: Send> Sync for Lazy<T, F> where OnceCell<T>: Sync {}
    // auto-derived `Send` impl is OK.

    impl<T, F: RefUnwindSafe> RefUnwindSafe for Lazy<T, F> where OnceCell<T>: RefUnwindSafe {}

    impl<T, F> Lazy<T, F> {
        /// Creates a new lazy value with the given initializing
        /// function.
        pub const fn new(f: F) -> Lazy<T, F> {
            Lazy { cell: OnceCell::new(), init: Cell::new(Some(f)) }
        }

        /// Consumes this `Lazy` returning the stored value.
        ///
        /// Returns `Ok(value)` if `Lazy` is initialized and `Err(f)` otherwise.
        pub fn into_value(this: Lazy<T, F>) -> Result<T, F> {
            let cell = this.cell;
            let init = this.init;
            cell.into_inner().ok_or_else(|| {
                init.take().unwrap_or_else(|| panic!("Lazy instance has previously been poisoned"))
            })
        }
    }

    impl<T, F: FnOnce() -> T> Lazy<T, F> {
        /// Forces the evaluation of this lazy value and
        /// returns a reference to the result. This is equivalent
        /// to the `Deref` impl, but is explicit.
        ///
        /// # Example
        /// ```
        /// use once_cell::sync::Lazy;
        ///
        /// let lazy = Lazy::new(|| 92);
        ///
        /// assert_eq!(Lazy::force(&lazy), &92);
        /// assert_eq!(&*lazy, &92);
        /// ```
        pub fn force(this: &Lazy<T, F>) -> &T {
            this.cell.get_or_init(|| match this.init.take() {
                Some(f) => f(),
                None => panic!("Lazy instance has previously been poisoned"),
            })
        }

        /// Forces the evaluation of this lazy value and
        /// returns a mutable reference to the result. This is equivalent
        /// to the `Deref` impl, but is explicit.
        ///
        /// # Example
        /// ```
        /// use once_cell::sync::Lazy;
        ///
        /// let mut lazy = Lazy::new(|| 92);
        ///
        /// assert_eq!(Lazy::force_mut(&mut lazy), &mut 92);
        /// ```
        pub fn force_mut(this: &mut Lazy<T, F>) -> &mut T {
            if this.cell.get_mut().is_none() {
                let value = match this.init.get_mut().take() {
                    Some(f) => f(),
                    None => panic!("Lazy instance has previously been poisoned"),
                };
                this.cell = OnceCell::with_value(value);
            }
            this.cell.get_mut().unwrap_or_else(|| unreachable!())
        }

        /// Gets the reference to the result of this lazy value if
        /// it was initialized, otherwise returns `None`.
        ///
        /// # Example
        /// ```
        /// use once_cell::sync::Lazy;
        ///
        /// let lazy = Lazy::new(|| 92);
        ///
        /// assert_eq!(Lazy::get(&lazy), None);
        /// assert_eq!(&*lazy, &92);
        /// assert_eq!(Lazy::get(&lazy), Some(&92));
        /// ```
        pub fn get(this: &Lazy<T, F>) -> Option<&T> {
            this.cell.get()
        }

        /// Gets the reference to the result of this lazy value if
        /// it was initialized, otherwise returns `None`.
        ///
        /// # Example
        /// ```
        /// use once_cell::sync::Lazy;
        ///
        /// let mut lazy = Lazy::new(|| 92);
        ///
        /// assert_eq!(Lazy::get_mut(&mut lazy), None);
        /// assert_eq!(&*lazy, &92);
        /// assert_eq!(Lazy::get_mut(&mut lazy), Some(&mut 92));
        /// ```
        pub fn get_mut(this: &mut Lazy<T, F>) -> Option<&mut T> {
            this.cell.get_mut()
        }
    }

    impl<T, F: FnOnce() -> T> Deref for Lazy<T, F> {
        type Target = T;
        fn deref(&self) -> &T {
            Lazy::force(self)
        }
    }

    impl<T, F: FnOnce() -> T> DerefMut for Lazy<T, F> {
        fn deref_mut(&mut self) -> &mut T {
            Lazy::force_mut(self)
        }
    }

    impl<T: Default> Default for Lazy<T> {
        /// Creates a new lazy value using `Default` as the initializing function.
        fn default() -> Lazy<T> {
            Lazy::new(T::default)
        }
    }

    /// ```compile_fail
    /// struct S(*mut ());
    /// unsafe impl Sync for S {}
    ///
    /// fn share<T: Sync>(_: &T) {}
    /// share(&once_cell::sync::OnceCell::<S>::new());
    /// ```
    ///
    /// ```compile_fail
    /// struct S(*mut ());
    /// unsafe impl Sync for S {}
    ///
    /// fn share<T: Sync>(_: &T) {}
    /// share(&once_cell::sync::Lazy::<S>::new(|| unimplemented!()));
    /// ```
    fn _dummy() {}
}

#[cfg(feature = "race")]
pub mod race;
