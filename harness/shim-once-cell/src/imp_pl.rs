use std::{
    cell::UnsafeCell,
    panic::{RefUnwindSafe, UnwindSafe},
    sync::atomic::{AtomicU8, Ordering},
};

pub(crate) struct OnceCell<T> {
    state: AtomicU8,
    value: UnsafeCell<Option<T>>,
}

const INCOMPLETE: u8 = 0x0;
const RUNNING: u8 = 0x1;
const COMPLETE: u8 = 0x2;

// Why do we need `T: Send`?
// Thread A creates a `OnceCell` and shares it with
// scoped thread B, which fills the cell, which is
// then destroyed by A. That is, destructor observes
// a sent value.
unsafe impl<T: Sync + Send> Sync for OnceCell<T> {}
unsafe impl<T: Send> Send for OnceCell<T> {}

impl<T: RefUnwindSafe + UnwindSafe> RefUnwindSafe for OnceCell<T> {}
impl<T: UnwindSafe> UnwindSafe for OnceCell<T> {}

impl<T> OnceCell<T> {
    pub(crate) const fn new() -> OnceCell<T> {
        OnceCell { state: AtomicU8::new(INCOMPLETE), value: UnsafeCell::new(None) }
    }

    pub(crate) const fn with_value(value: T) -> OnceCell<T> {
        OnceCell { state: AtomicU8::new(COMPLETE), value: UnsafeCell::new(Some(value)) }
    }

    /// Safety: synchronizes with store to value via Release/Acquire.
    #[inline]
    pub(crate) fn is_initialized(&self) -> bool {
        self.state.load(Ordering::Acquire) == COMPLETE
    }

    /// Safety: synchronizes with store to value via `is_initialized` or mutex
    /// lock/unlock, writes value only once because of the mutex.
    #[cold]
    pub(crate) fn initialize<F, E>(&self, f: F) -> Result<(), E>
    where
        F: FnOnce() -> Result<T, E>,
    {
        let mut f = Some(f);
        let mut res: Result<(), E> = Ok(());
        let slot: *mut Option<T> = self.value.get();
        initialize_inner(&self.state, &mut || {
            // We are calling user-supplied function and need to be careful.
            // - if it returns Err, we unlock mutex and return without touching anything
            // - if it panics, we unlock mutex and propagate panic without touching anything
            // - if it calls `set` or `get_or_try_init` re-entrantly, we get a deadlock on
            //   mutex, which is important for safety. We *could* detect this and panic,
            //   but that is more complicated
            // - finally, if it returns Ok, we store the value and store the flag with
            //   `Release`, which synchronizes with `Acquire`s.
            let f = unsafe { f.take().unwrap_unchecked() };
            match f() {
                Ok(value) => unsafe {
                    // Safe b/c we have a unique access and no panic may happen
                    // until the cell is marked as initialized.
                    debug_assert!((*slot).is_none());
                    *slot = Some(value);
                    true
                },
                Err(err) => {
                    res = Err(err);
                    false
                }
            }
        });
        res
    }

    #[cold]
    pub(crate) fn wait(&self) {
        let key = &self.state as *const _ as usize;
        unsafe {
            parking_lot_core::park(
                key,
                || self.state.load(Ordering::Acquire) != COMPLETE,
                || (),
                |_, _| (),
                parking_lot_core::DEFAULT_PARK_TOKEN,
                None,
            );
        }
    }

    /// Get the reference to the underlying value, without checking if the cell
    /// is initialized.
    ///
    /// # Safety
    ///
    /// Caller must ensure that the cell is in initialized state, and that
    /// the contents are acquired by (synchronized to) this thread.
    pub(crate) unsafe fn get_unchecked(&self) -> &T {
        debug_assert!(self.is_initialized());
        let slot = &*self.value.get();
        slot.as_ref().unwrap_unchecked()
    }

    /// Gets the mutable reference to the underlying value.
    /// Returns `None` if the cell is empty.
    pub(crate) fn get_mut(&mut self) -> Option<&mut T> {
        // Safe b/c we have an exclusive access
        let slot: &mut Option<T> = unsafe { &mut *self.value.get() };
        slot.as_mut()
    }

    /// Consumes this `OnceCell`, returning the wrapped value.
    /// Returns `None` if the cell was empty.
    pub(crate) fn into_inner(self) -> Option<T> {
        self.value.into_inner()
    }
}

struct Guard<'a> {
    state: &'a AtomicU8,
    new_state: u8,
}

impl<'a> Drop for Guard<'a> {
    fn drop(&mut self) {
        self.state.store(self.new_state, Ordering::Release);
        unsafe {
            let key = self.state as *const AtomicU8 as usize;
            parking_lot_core::unpark_all(key, parking_lot_core::DEFAULT_UNPARK_TOKEN);
        }
    }
}

// Note: this is intentionally monomorphic
#[inline(never)]
fn initialize_inner(state: &AtomicU8, init: &mut dyn FnMut() -> bool) {
    loop {
        let exchange =
            state.compare_exchange_weak(INCOMPLETE, RUNNING, Ordering::Acquire, Ordering::Acquire);
        match exchange {
            Ok(_) => {
                let mut guard = Guard { state, new_state: INCOMPLETE };
                if init() {
                    guard.new_state = COMPLETE;
                }
                return;
            }
            Err(COMPLETE) => return,
            Err(RUNNING) => unsafe {
                let key = state as *const AtomicU8 as usize;
                parking_lot_core::park(
                    key,
                    || state.load(Ordering::Relaxed) == RUNNING,
                    || (),
                    |_, _| (),
                    parking_lot_core::DEFAULT_PARK_TOKEN,
                    None,
                );
            },
            Err(INCOMPLETE) => (),
            Err(_) => debug_assert!(false),
        }
    }
}

#[test]
fn test_size() {
    use std::mem::size_of;

    assert_eq!(size_of::<OnceCell<bool>>(), 1 * size_of::<bool>() + size_of::<u8>());
}
