use core::panic::{RefUnwindSafe, UnwindSafe};

use critical_section::{CriticalSection, Mutex};
use portable_atomic::{AtomicBool, Ordering};

use crate::unsync;

pub(crate) struct OnceCell<T> {
    initialized: AtomicBool,
    // Use `unsync::OnceCell` internally since `Mutex` does not provide
    // interior mutability and to be able to re-use `get_or_try_init`.
    value: Mutex<unsync::OnceCell<T>>,
}

// Why do we need `T: Send`?
// Thread A creates a `OnceCell` and shares it with
// scoped thread B, which fills the cell, which is
// then destroyed by A. That is, destructor observes
// a sent value.
unsafe impl<T: Sync + Send> Sync for OnceCell<T> {}
unsafe impl<T: Send> Send for OnceCell<T> {}

impl<T: RefUnwindSafe + UnwindSafe> RefUnwindSafe for OnceCell<T> {}
impl<T: UnwindSafe> UnwindSafe for OnceCell<T> {}

impl<T> OnceCell<T> {
    pub(crate) const fn new() -> OnceCell<T> {
        OnceCell { initialized: AtomicBool::new(false), value: Mutex::new(unsync::OnceCell::new()) }
    }

    pub(crate) const fn with_value(value: T) -> OnceCell<T> {
        OnceCell {
            initialized: AtomicBool::new(true),
            value: Mutex::new(unsync::OnceCell::with_value(value)),
        }
    }

    #[inline]
    pub(crate) fn is_initialized(&self) -> bool {
        self.initialized.load(Ordering::Acquire)
    }

    #[cold]
    pub(crate) fn initialize<F, E>(&self, f: F) -> Result<(), E>
    where
        F: FnOnce() -> Result<T, E>,
    {
        critical_section::with(|cs| {
            let cell = self.value.borrow(cs);
            cell.get_or_try_init(f).map(|_| {
                self.initialized.store(true, Ordering::Release);
            })
        })
    }

    /// Get the reference to the underlying value, without checking if the cell
    /// is initialized.
    ///
    /// # Safety
    ///
    /// Caller must ensure that the cell is in initialized state, and that
    /// the contents are acquired by (synchronized to) this thread.
    pub(crate) unsafe fn get_unchecked(&self) -> &T {
        debug_assert!(self.is_initialized());
        // SAFETY: The caller ensures that the value is initialized and access synchronized.
        self.value.borrow(CriticalSection::new()).get().unwrap_unchecked()
    }

    #[inline]
    pub(crate) fn get_mut(&mut self) -> Option<&mut T> {
        self.value.get_mut().get_mut()
    }

    #[inline]
    pub(crate) fn into_inner(self) -> Option<T> {
        self.value.into_inner().into_inner()
    }
}
