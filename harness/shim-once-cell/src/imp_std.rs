// There's a lot of scary concurrent code in this module, but it is copied from
// `std::sync::Once` with two changes:
//   * no poisoning
//   * init function can fail

use std::{
    cell::{Cell, UnsafeCell},
    panic::{RefUnwindSafe, UnwindSafe},
    sync::atomic::{AtomicBool, AtomicPtr, Ordering},
    thread::{self, Thread},
};

#[derive(Debug)]
pub(crate) struct OnceCell<T> {
    // This `queue` field is the core of the implementation. It encodes two
    // pieces of information:
    //
    // * The current state of the cell (`INCOMPLETE`, `RUNNING`, `COMPLETE`)
    // * Linked list of threads waiting for the current cell.
    //
    // State is encoded in two low bits. Only `INCOMPLETE` and `RUNNING` states
    // allow waiters.
    queue: AtomicPtr<Waiter>,
    value: UnsafeCell<Option<T>>,
}

// Why do we need `T: Send`?
// Thread A creates a `OnceCell` and shares it with
// scoped thread B, which fills the cell, which is
// then destroyed by A. That is, destructor observes
// a sent value.
unsafe impl<T: Sync + Send> Sync for OnceCell<T> {}
unsafe impl<T: Send> Send for OnceCell<T> {}

impl<T: RefUnwindSafe + UnwindSafe> RefUnwindSafe for OnceCell<T> {}
impl<T: UnwindSafe> UnwindSafe for OnceCell<T> {}

impl<T> OnceCell<T> {
    pub(crate) const fn new() -> OnceCell<T> {
        OnceCell { queue: AtomicPtr::new(INCOMPLETE_PTR), value: UnsafeCell::new(None) }
    }

    pub(crate) const fn with_value(value: T) -> OnceCell<T> {
        OnceCell { queue: AtomicPtr::new(COMPLETE_PTR), value: UnsafeCell::new(Some(value)) }
    }

    /// Safety: synchronizes with store to value via Release/(Acquire|SeqCst).
    #[inline]
    pub(crate) fn is_initialized(&self) -> bool {
        // An `Acquire` load is enough because that makes all the initialization
        // operations visible to us, and, this being a fast path, weaker
        // ordering helps with performance. This `Acquire` synchronizes with
        // `SeqCst` operations on the slow path.
        self.queue.load(Ordering::Acquire) == COMPLETE_PTR
    }

    /// Safety: synchronizes with store to value via SeqCst read from state,
    /// writes value only once because we never get to INCOMPLETE state after a
    /// successful write.
    #[cold]
    pub(crate) fn initialize<F, E>(&self, f: F) -> Result<(), E>
    where
        F: FnOnce() -> Result<T, E>,
    {
        let mut f = Some(f);
        let mut res: Result<(), E> = Ok(());
        let slot: *mut Option<T> = self.value.get();
        initialize_or_wait(
            &self.queue,
            Some(&mut || {
                let f = unsafe { f.take().unwrap_unchecked() };
                match f() {
                    Ok(value) => {
                        unsafe { *slot = Some(value) };
                        true
                    }
                    Err(err) => {
                        res = Err(err);
                        false
                    }
                }
            }),
        );
        res
    }

    #[cold]
    pub(crate) fn wait(&self) {
        initialize_or_wait(&self.queue, None);
    }

    /// Get the reference to the underlying value, without checking if the cell
    /// is initialized.
    ///
    /// # Safety
    ///
    /// Caller must ensure that the cell is in initialized state, and that
    /// the contents are acquired by (synchronized to) this thread.
    pub(crate) unsafe fn get_unchecked(&self) -> &T {
        debug_assert!(self.is_initialized());
        let slot = &*self.value.get();
        slot.as_ref().unwrap_unchecked()
    }

    /// Gets the mutable reference to the underlying value.
    /// Returns `None` if the cell is empty.
    pub(crate) fn get_mut(&mut self) -> Option<&mut T> {
        // Safe b/c we have a unique access.
        unsafe { &mut *self.value.get() }.as_mut()
    }

    /// Consumes this `OnceCell`, returning the wrapped value.
    /// Returns `None` if the cell was empty.
    #[inline]
    pub(crate) fn into_inner(self) -> Option<T> {
        // Because `into_inner` takes `self` by value, the compiler statically
        // verifies that it is not currently borrowed.
        // So, it is safe to move out `Option<T>`.
        self.value.into_inner()
    }
}

// Three states that a OnceCell can be in, encoded into the lower bits of `queue` in
// the OnceCell structure.
const INCOMPLETE: usize = 0x0;
const RUNNING: usize = 0x1;
const COMPLETE: usize = 0x2;
const INCOMPLETE_PTR: *mut Waiter = INCOMPLETE as *mut Waiter;
const COMPLETE_PTR: *mut Waiter = COMPLETE as *mut Waiter;

// Mask to learn about the state. All other bits are the queue of waiters if
// this is in the RUNNING state.
const STATE_MASK: usize = 0x3;

/// Representation of a node in the linked list of waiters in the RUNNING state.
/// A waiters is stored on the stack of the waiting threads.
#[repr(align(4))] // Ensure the two lower bits are free to use as state bits.
struct Waiter {
    thread: Cell<Option<Thread>>,
    signaled: AtomicBool,
    next: *mut Waiter,
}

/// Drains and notifies the queue of waiters on drop.
struct Guard<'a> {
    queue: &'a AtomicPtr<Waiter>,
    new_queue: *mut Waiter,
}

impl Drop for Guard<'_> {
    fn drop(&mut self) {
        let queue = self.queue.swap(self.new_queue, Ordering::AcqRel);

        let state = strict::addr(queue) & STATE_MASK;
        assert_eq!(state, RUNNING);

        unsafe {
            let mut waiter = strict::map_addr(queue, |q| q & !STATE_MASK);
            while !waiter.is_null() {
                let next = (*waiter).next;
                let thread = (*waiter).thread.take().unwrap();
                (*waiter).signaled.store(true, Ordering::Release);
                waiter = next;
                thread.unpark();
            }
        }
    }
}

// Corresponds to `std::sync::Once::call_inner`.
//
// Originally copied from std, but since modified to remove poisoning and to
// support wait.
//
// Note: this is intentionally monomorphic
#[inline(never)]
fn initialize_or_wait(queue: &AtomicPtr<Waiter>, mut init: Option<&mut dyn FnMut() -> bool>) {
    let mut curr_queue = queue.load(Ordering::Acquire);

    loop {
        let curr_state = strict::addr(curr_queue) & STATE_MASK;
        match (curr_state, &mut init) {
            (COMPLETE, _) => return,
            (INCOMPLETE, Some(init)) => {
                let exchange = queue.compare_exchange(
                    curr_queue,
                    strict::map_addr(curr_queue, |q| (q & !STATE_MASK) | RUNNING),
                    Ordering::Acquire,
                    Ordering::Acquire,
                );
                if let Err(new_queue) = exchange {
                    curr_queue = new_queue;
                    continue;
                }
                let mut guard = Guard { queue, new_queue: INCOMPLETE_PTR };
                if init() {
                    guard.new_queue = COMPLETE_PTR;
                }
                return;
            }
            (INCOMPLETE, None) | (RUNNING, _) => {
                wait(queue, curr_queue);
                curr_queue = queue.load(Ordering::Acquire);
            }
            _ => debug_assert!(false),
        }
    }
}

fn wait(queue: &AtomicPtr<Waiter>, mut curr_queue: *mut Waiter) {
    let curr_state = strict::addr(curr_queue) & STATE_MASK;
    loop {
        let node = Waiter {
            thread: Cell::new(Some(thread::current())),
            signaled: AtomicBool::new(false),
            next: strict::map_addr(curr_queue, |q| q & !STATE_MASK),
        };
        let me = &node as *const Waiter as *mut Waiter;

        let exchange = queue.compare_exchange(
            curr_queue,
            strict::map_addr(me, |q| q | curr_state),
            Ordering::Release,
            Ordering::Relaxed,
        );
        if let Err(new_queue) = exchange {
            if strict::addr(new_queue) & STATE_MASK != curr_state {
                return;
            }
            curr_queue = new_queue;
            continue;
        }

        while !node.signaled.load(Ordering::Acquire) {
            thread::park();
        }
        break;
    }
}

// Polyfill of strict provenance from https://crates.io/crates/sptr.
//
// Use free-standing function rather than a trait to keep things simple and
// avoid any potential conflicts with future stabile std API.
mod strict {
    #[must_use]
    #[inline]
    pub(crate) fn addr<T>(ptr: *mut T) -> usize
    where
        T: Sized,
    {
        // FIXME(strict_provenance_magic): I am magic and should be a compiler intrinsic.
        // SAFETY: Pointer-to-integer transmutes are valid (if you are okay with losing the
        // provenance).
        unsafe { core::mem::transmute(ptr) }
    }

    #[must_use]
    #[inline]
    pub(crate) fn with_addr<T>(ptr: *mut T, addr: usize) -> *mut T
    where
        T: Sized,
    {
        // FIXME(strict_provenance_magic): I am magic and should be a compiler intrinsic.
        //
        // In the mean-time, this operation is defined to be "as if" it was
        // a wrapping_offset, so we can emulate it as such. This should properly
        // restore pointer provenance even under today's compiler.
        let self_addr = self::addr(ptr) as isize;
        let dest_addr = addr as isize;
        let offset = dest_addr.wrapping_sub(self_addr);

        // This is the canonical desugarring of this operation,
        // but `pointer::cast` was only stabilized in 1.38.
        // self.cast::<u8>().wrapping_offset(offset).cast::<T>()
        (ptr as *mut u8).wrapping_offset(offset) as *mut T
    }

    #[must_use]
    #[inline]
    pub(crate) fn map_addr<T>(ptr: *mut T, f: impl FnOnce(usize) -> usize) -> *mut T
    where
        T: Sized,
    {
        self::with_addr(ptr, f(addr(ptr)))
    }
}

// These test are snatched from std as well.
#[cfg(test)]
mod tests {
    use std::panic;
    use std::{sync::mpsc::channel, thread};

    use super::OnceCell;

    impl<T> OnceCell<T> {
        fn init(&self, f: impl FnOnce() -> T) {
            enum Void {}
            let _ = self.initialize(|| Ok::<T, Void>(f()));
        }
    }

    #[test]
    fn smoke_once() {
        static O: OnceCell<()> = OnceCell::new();
        let mut a = 0;
        O.init(|| a += 1);
        assert_eq!(a, 1);
        O.init(|| a += 1);
        assert_eq!(a, 1);
    }

    #[test]
    fn stampede_once() {
        static O: OnceCell<()> = OnceCell::new();
        static mut RUN: bool = false;

        let (tx, rx) = channel();
        for _ in 0..10 {
            let tx = tx.clone();
            thread::spawn(move || {
                for _ in 0..4 {
                    thread::yield_now()
                }
                unsafe {
                    O.init(|| {
                        assert!(!RUN);
                        RUN = true;
                    });
                    assert!(RUN);
                }
                tx.send(()).unwrap();
            });
        }

        unsafe {
            O.init(|| {
                assert!(!RUN);
                RUN = true;
            });
            assert!(RUN);
        }

        for _ in 0..10 {
            rx.recv().unwrap();
        }
    }

    #[test]
    fn poison_bad() {
        static O: OnceCell<()> = OnceCell::new();

        // poison the once
        let t = panic::catch_unwind(|| {
            O.init(|| panic!());
        });
        assert!(t.is_err());

        // we can subvert poisoning, however
        let mut called = false;
        O.init(|| {
            called = true;
        });
        assert!(called);

        // once any success happens, we stop propagating the poison
        O.init(|| {});
    }

    #[test]
    fn wait_for_force_to_finish() {
        static O: OnceCell<()> = OnceCell::new();

        // poison the once
        let t = panic::catch_unwind(|| {
            O.init(|| panic!());
        });
        assert!(t.is_err());

        // make sure someone's waiting inside the once via a force
        let (tx1, rx1) = channel();
        let (tx2, rx2) = channel();
        let t1 = thread::spawn(move || {
            O.init(|| {
                tx1.send(()).unwrap();
                rx2.recv().unwrap();
            });
        });

        rx1.recv().unwrap();

        // put another waiter on the once
        let t2 = thread::spawn(|| {
            let mut called = false;
            O.init(|| {
                called = true;
            });
            assert!(!called);
        });

        tx2.send(()).unwrap();

        assert!(t1.join().is_ok());
        assert!(t2.join().is_ok());
    }

    #[test]
    #[cfg(target_pointer_width = "64")]
    fn test_size() {
        use std::mem::size_of;

        assert_eq!(size_of::<OnceCell<u32>>(), 4 * size_of::<u32>());
    }
}
